"""Naming discipline of the renderer (C04, C11, C14).

The constructor of every generator normalises the class name of its model *in place* (``set_raw_name``).  Three
structural consequences are decided here:

NAMEORD-2  a model's name is looked up when a class is rendered, never while the layout is composed or the reference
           context is set up: those run before the generators exist, so a name captured there is the raw one and the
           emitted reference does not match the emitted class (and a second rendering differs from the first).
RENAME-1   the in-place renaming passes the model's own generated-name flag back and converts with the instance's
           converter: rendering must not turn generated names into user-given ones (the registry would then stop
           regenerating them after a later merge).
OPTFWD-1   naming options reach the code that uses them: framework generators forward the options they accept to the
           base constructor, and every label conversion in a generator class is parameterised by the instance's
           ``convert_unicode`` option.
"""
from __future__ import annotations

import ast
import re
from typing import List, Tuple

from ..ctx import Ctx
from ..model import AnalysisError, FuncInfo, norm, walk_no_nested
from ..report import DISCHARGED, VIOLATED, RuleResult
from ..util import enclosing_loop, has_escape

BASE = "json_to_models/models/base.py"
META = "json_to_models/dynamic_typing/models_meta.py"


def _pre_render_functions(ctx: Ctx) -> List[FuncInfo]:
    """Functions that run before any generator has been constructed: the layout composers, the reference context
    and `generate_code` itself (not the helpers it hands the structure to)."""
    prog = ctx.prog
    out: List[FuncInfo] = []
    for rel in ("json_to_models/models/structure.py", "json_to_models/models/utils.py"):
        m = prog.modules.get(rel)
        if m is not None:
            out.extend(m.all_funcs)
    meta = prog.module(META)
    for f in meta.all_funcs:
        q = f.qualname
        if q.startswith("AbsoluteModelRef.") and not q.endswith("to_typing_code") and "to_typing_code" not in q:
            out.append(f)
    out.append(prog.func(BASE, "generate_code"))
    return out


def _inside(mod, node, kinds) -> bool:
    p = mod.parents.get(node)
    while p is not None:
        if isinstance(p, kinds):
            return True
        if isinstance(p, (ast.FunctionDef, ast.AsyncFunctionDef, ast.Lambda)):
            return False
        p = mod.parents.get(p)
    return False


def rule_nameord2(ctx: Ctx) -> RuleResult:
    rr = RuleResult("NAMEORD-2", "model names are read at rendering time, not while the layout or the reference context "
                    "is built", floor=6)
    funcs = _pre_render_functions(ctx)
    if len(funcs) < 6:
        raise AnalysisError(f"NAMEORD-2: only {len(funcs)} pre-render functions found")
    st = ("code that runs before the generators are constructed does not capture a model's name (the constructors rename "
          "models in place afterwards); it passes the model object on and the name is read when the reference is rendered")
    for f in funcs:
        reads = []
        for n in ast.walk(f.node):
            if isinstance(n, ast.Attribute) and n.attr in ("name", "_name") and isinstance(n.ctx, ast.Load):
                if _inside(f.module, n, (ast.Raise, ast.Assert)):
                    continue
                reads.append(n)
            if isinstance(n, ast.Call) and isinstance(n.func, ast.Name) and n.func.id == "getattr" and len(n.args) >= 2 \
                    and isinstance(n.args[1], ast.Constant) and n.args[1].value in ("name", "_name"):
                reads.append(n)
        rr.instances += 1
        if not reads:
            rr.ob(f.relpath, f.qualname, f.name, st, DISCHARGED, "no name is read here (error messages aside)", f.node.lineno)
        for n in reads:
            stmt = n
            while stmt in f.module.parents and not isinstance(stmt, ast.stmt):
                stmt = f.module.parents[stmt]
            rr.ob(f.relpath, f.qualname, norm(stmt)[:100], st, VIOLATED,
                  f"`{norm(n)}` is evaluated before the generators have normalised the class names: the raw name is "
                  f"captured", n.lineno)
    # positive half: the reference renderer does read the name (otherwise the rule guards nothing)
    ren = [f for f in ctx.prog.module(META).all_funcs if f.qualname.startswith("AbsoluteModelRef.") and f.name == "to_typing_code"]
    if not ren or not any(isinstance(n, ast.Attribute) and n.attr == "name" for n in ast.walk(ren[0].node)):
        raise AnalysisError("NAMEORD-2: AbsoluteModelRef.to_typing_code no longer reads a model name; rule out of date")
    return rr


def rule_rename1(ctx: Ctx) -> RuleResult:
    rr = RuleResult("RENAME-1", "the renderer's in-place renaming keeps the generated-name flag and uses the instance's converter",
                    floor=1)
    prog = ctx.prog
    setter = prog.func(META, "ModelMeta.set_raw_name")
    # the flag parameter and its default
    params = [a.arg for a in setter.node.args.args]
    if len(params) < 3:
        raise AnalysisError("RENAME-1: ModelMeta.set_raw_name has no flag parameter any more")
    flag = params[2]
    sites = []
    for m in prog.modules.values():
        if not m.relpath.startswith("json_to_models/models/"):
            continue
        for f in m.all_funcs:
            for n in walk_no_nested(f.node):
                if isinstance(n, ast.Call) and isinstance(n.func, ast.Attribute) and n.func.attr == "set_raw_name":
                    sites.append((f, n))
    if not sites:
        raise AnalysisError("RENAME-1: no renaming site in json_to_models/models/")
    for f, n in sites:
        rr.instances += 1
        recv = norm(n.func.value)
        flagv = None
        if len(n.args) >= 2:
            flagv = n.args[1]
        for kw in n.keywords:
            if kw.arg == flag:
                flagv = kw.value
        problems = []
        if flagv is None:
            problems.append(f"`{flag}` is not passed: the model is marked as named by the user from now on")
        elif norm(flagv) != f"{recv}.is_name_generated" and norm(flagv) != f"{recv}._name_generated":
            problems.append(f"`{flag}={norm(flagv)}` is not the model's own flag")
        namev = n.args[0] if n.args else None
        converted = isinstance(namev, ast.Call) and norm(namev.func) == "self.convert_class_name" and namev.args and \
            norm(namev.args[0]) == f"{recv}.name"
        # or: the current name with a suffix added until it is free (the de-duplication step)
        suffixed = isinstance(namev, ast.Name) and any(
            isinstance(x, ast.Assign) and norm(x.targets[0]) == namev.id and norm(x.value) == f"{recv}.name"
            for x in walk_no_nested(f.node)) and all(
            (isinstance(x, ast.Assign) and norm(x.value) == f"{recv}.name") or isinstance(x, ast.AugAssign)
            for x in walk_no_nested(f.node) if isinstance(x, (ast.Assign, ast.AugAssign)) and
            norm(x.targets[0] if isinstance(x, ast.Assign) else x.target) == namev.id)
        if namev is None or not (converted or suffixed):
            problems.append("the new name is neither self.convert_class_name(<the model's current name>) nor that name with a suffix")
        rr.ob(f.relpath, f.qualname, norm(n)[:100], "rendering renames a model only to the converted form of its current "
              "name and leaves the generated-name flag as it was", VIOLATED if problems else DISCHARGED,
              "; ".join(problems) if problems else "flag passed back, converter applied to the current name", n.lineno)
    return rr


def rule_optfwd1(ctx: Ctx) -> RuleResult:
    rr = RuleResult("OPTFWD-1", "naming and rendering options reach the code that applies them", floor=5)
    prog = ctx.prog
    init = prog.func(BASE, "GenericModelCodeGenerator.__init__")
    gbase = prog.cls(BASE, "GenericModelCodeGenerator")
    bparams = set(init.params) - {"self", "model"}
    # (a) constructors
    for k in prog.subclasses(gbase, strict=True):
        for f in k.methods.get("__init__", []):
            rr.instances += 1
            sup = [c for c in walk_no_nested(f.node) if isinstance(c, ast.Call) and (
                norm(c.func) in ("super().__init__", f"super({k.name}, self).__init__") or
                (norm(c.func).endswith(".__init__") and c.args and norm(c.args[0]) == "self"))]
            named = [p for p in f.params if p in bparams]
            problems = []
            if not sup:
                problems.append("base constructor is not called")
            else:
                c = sup[0]
                kws = {kw.arg: norm(kw.value) for kw in c.keywords if kw.arg}
                star = {nm for kw in c.keywords if kw.arg is None for nm in
                        ([x.id for x in ast.walk(kw.value) if isinstance(x, ast.Name)])}
                if f.node.args.kwarg and f.node.args.kwarg.arg not in star:
                    problems.append(f"**{f.node.args.kwarg.arg} is not forwarded (options such as convert_unicode stop here)")
                for p in named:
                    if kws.get(p) != p and p not in [norm(a) for a in c.args]:
                        forced = any(isinstance(n, ast.Assign) and isinstance(n.targets[0], ast.Subscript) and
                                     isinstance(n.targets[0].slice, ast.Constant) and n.targets[0].slice.value == p
                                     for n in walk_no_nested(f.node))
                        if not forced:
                            problems.append(f"parameter `{p}` is accepted but not passed to the base constructor")
                # popped / deleted before the call
                kw = f.node.args.kwarg.arg if f.node.args.kwarg else None
                for n in walk_no_nested(f.node):
                    if kw and isinstance(n, ast.Call) and isinstance(n.func, ast.Attribute) and norm(n.func.value) == kw \
                            and n.func.attr in ("pop", "clear", "popitem") and n.lineno < c.lineno:
                        a = n.args[0].value if n.args and isinstance(n.args[0], ast.Constant) else None
                        if a in bparams or a is None:
                            problems.append(f"`{norm(n)[:40]}` removes an option before the base constructor sees it")
            rr.ob(f.relpath, f.qualname, norm(sup[0])[:70] if sup else "__init__", "options accepted by a framework generator "
                  "reach the base constructor", VIOLATED if problems else DISCHARGED,
                  "; ".join(problems) if problems else "forwarded", f.node.lineno)
    # (b) the base constructor stores the option unconditionally
    rr.instances += 1
    st = [n for n in init.node.body if isinstance(n, ast.Assign) and norm(n.targets[0]) == "self.convert_unicode"]
    ok = len(st) == 1 and norm(st[0].value) == "convert_unicode"
    rr.ob(init.relpath, init.qualname, norm(st[0]) if st else "self.convert_unicode", "the unicode option is stored as given",
          DISCHARGED if ok else VIOLATED, "stored" if ok else "not stored as given / stored conditionally", init.node.lineno)
    # (c) every label conversion in a generator class uses the instance's option
    n_calls = 0
    for k in prog.subclasses(gbase):
        for ms in k.methods.values():
            for f in ms:
                for n in walk_no_nested(f.node):
                    if isinstance(n, ast.Call) and isinstance(n.func, ast.Name) and n.func.id == "prepare_label":
                        n_calls += 1
                        rr.instances += 1
                        v = None
                        for kw in n.keywords:
                            if kw.arg == "convert_unicode":
                                v = kw.value
                        if v is None and len(n.args) >= 2:
                            v = n.args[1]
                        ok = v is not None and norm(v) == "self.convert_unicode"
                        rr.ob(f.relpath, f.qualname, norm(n)[:90], "label conversion inside a generator is governed by the "
                              "instance's convert_unicode option", DISCHARGED if ok else VIOLATED,
                              "convert_unicode=self.convert_unicode" if ok else
                              f"convert_unicode={norm(v) if v is not None else '<missing>'}: the option is ignored here",
                              n.lineno)
    if n_calls < 2:
        raise AnalysisError(f"OPTFWD-1: only {n_calls} label conversions found in generator classes")
    return rr


# ---------------------------------------------------------------------------------------------------------------
LOSSY_LABEL_OPS = {"re.sub": "deletes every non-word character", "unidecode": "transliterates to ASCII",
                   "inflection.underscore": "folds camelCase and snake_case together", "underscore": "folds camelCase and snake_case together",
                   "lower": "folds case"}


def _lossy_ops(ctx: Ctx) -> List[str]:
    f = ctx.prog.func(BASE, "prepare_label")
    found = []
    for n in walk_no_nested(f.node):
        if isinstance(n, ast.Call):
            fn = norm(n.func)
            short = fn.split(".")[-1]
            if fn in LOSSY_LABEL_OPS:
                found.append(f"{fn} ({LOSSY_LABEL_OPS[fn]})")
            elif short in LOSSY_LABEL_OPS and short != "lower":
                found.append(f"{fn} ({LOSSY_LABEL_OPS[short]})")
    return found


def _has_disambiguation(f: FuncInfo, init: FuncInfo) -> Tuple[bool, str]:
    """A loop / test in ``f`` that consults a per-instance collection of names already handed out and changes the label."""
    # per-instance containers created empty by the constructor
    containers = set()
    for n in walk_no_nested(init.node):
        if isinstance(n, (ast.Assign, ast.AnnAssign)) and getattr(n, "value", None) is not None:
            t = n.targets[0] if isinstance(n, ast.Assign) else n.target
            v = n.value
            if isinstance(t, ast.Attribute) and isinstance(t.value, ast.Name) and t.value.id == "self" and (
                    (isinstance(v, (ast.Dict, ast.Set, ast.List)) and not (getattr(v, "keys", None) or getattr(v, "elts", None))) or
                    (isinstance(v, ast.Call) and norm(v.func) in ("set", "dict", "defaultdict", "Counter", "collections.Counter", "list")
                     and not v.args)):
                containers.add(t.attr)
    in_assert = {id(x) for a in walk_no_nested(f.node) if isinstance(a, ast.Assert) for x in ast.walk(a)}
    single_test = None
    for n in walk_no_nested(f.node):
        if isinstance(n, (ast.While, ast.If)):
            used = {x.attr for x in ast.walk(n.test) if isinstance(x, ast.Attribute) and isinstance(x.value, ast.Name)
                    and x.value.id == "self" and x.attr in containers}
            if not used:
                continue
            if isinstance(n, ast.If):
                single_test = n     # tested once: the changed label is not looked up again
                continue
            changed = {norm(s.target) for s in ast.walk(n) if isinstance(s, ast.AugAssign)} | \
                      {norm(t) for s in ast.walk(n) if isinstance(s, ast.Assign) for t in s.targets}
            rets = {norm(r.value) for r in walk_no_nested(f.node) if isinstance(r, ast.Return) and r.value is not None}
            if changed & rets:
                # the container must also learn the label (in the test itself or in the function)
                learns = any(isinstance(c, ast.Call) and isinstance(c.func, ast.Attribute) and c.func.attr in ("setdefault", "add", "append", "update")
                             and isinstance(c.func.value, ast.Attribute) and c.func.value.attr in used and id(c) not in in_assert
                             for c in walk_no_nested(f.node)) or any(
                    isinstance(s, ast.Assign) and isinstance(s.targets[0], ast.Subscript) and isinstance(s.targets[0].value, ast.Attribute)
                    and s.targets[0].value.attr in used for s in walk_no_nested(f.node))
                if learns:
                    lab = sorted(changed & rets)[0]
                    cont = sorted(used)[0]
                    # the label that is finally returned must be the one recorded: claimed by the loop test itself
                    # (setdefault) or stored after the loop
                    test_claims = any(isinstance(c, ast.Call) and isinstance(c.func, ast.Attribute) and c.func.attr == "setdefault"
                                      and isinstance(c.func.value, ast.Attribute) and c.func.value.attr == cont and c.args
                                      and norm(c.args[0]) == lab for c in ast.walk(n.test))
                    post_claims = False
                    for x in walk_no_nested(f.node):
                        if getattr(x, "lineno", 0) > n.end_lineno and id(x) not in in_assert:
                            if isinstance(x, ast.Assign) and isinstance(x.targets[0], ast.Subscript) and isinstance(x.targets[0].value, ast.Attribute) \
                                    and x.targets[0].value.attr == cont and norm(x.targets[0].slice) == lab:
                                post_claims = True
                            if isinstance(x, ast.Call) and isinstance(x.func, ast.Attribute) and x.func.attr in ("add", "setdefault") and \
                                    isinstance(x.func.value, ast.Attribute) and x.func.value.attr == cont and x.args and norm(x.args[0]) == lab:
                                post_claims = True
                    if not (test_claims or post_claims):
                        return False, (f"the label that leaves the loop is never recorded in self.{cont} (only the first candidate is): a "
                                       f"third key with the same label gets the suffixed name a second time")
                    # a free slot must not be recognised by a value that a key can have
                    for c in walk_no_nested(f.node):
                        if isinstance(c, ast.Call) and isinstance(c.func, ast.Attribute) and c.func.attr == "get" and len(c.args) == 2 and \
                                isinstance(c.func.value, ast.Attribute) and c.func.value.attr == cont and \
                                isinstance(c.args[1], ast.Constant) and isinstance(c.args[1].value, str):
                            return False, (f"`{norm(c)[:50]}` marks a free label with the string {c.args[1].value!r}, which is itself a "
                                           f"possible JSON key: a label owned by that key looks free")
                    return True, f"`{norm(n.test)[:60]}` consults self.{cont} and changes `{lab}` until it is free"
                return False, ("the names handed out are recorded only inside an `assert`, which `python -O` removes: without it every "
                               "label looks free")
    if single_test is not None:
        return False, (f"`{norm(single_test.test)[:60]}` is tested once (`if`, not a loop): the label with the suffix is not looked up "
                       f"again, so a third key with the same label (\"fooBar\", \"foo_bar\", \"FooBar\") collides with the second")
    return False, "the name is a function of the key alone"


def rule_uniq1(ctx: Ctx) -> RuleResult:
    """Two keys of one object never get the same field name."""
    rr = RuleResult("UNIQ-1", "field names of one model are made distinct after conversion", floor=1)
    prog = ctx.prog
    base = prog.cls(BASE, "GenericModelCodeGenerator")
    init = prog.func(BASE, "GenericModelCodeGenerator.__init__")
    lossy = _lossy_ops(ctx)
    conv = base.methods.get("convert_field_name", [])
    if not conv:
        raise AnalysisError("UNIQ-1: GenericModelCodeGenerator.convert_field_name vanished")
    f = conv[0]
    rr.instances += 1
    st = ("distinct keys of one object give distinct field names: the label conversion is not injective, so the generator "
          "has to notice a label that is already taken and change it")
    if not lossy:
        rr.ob(f.relpath, f.qualname, "prepare_label", st, DISCHARGED, "the conversion applies no lossy operation", f.node.lineno)
    else:
        ok, how = _has_disambiguation(f, init)
        # the emitting loop may do it instead
        if not ok:
            for alt in ("fields", "field_data"):
                for g in base.methods.get(alt, []):
                    ok2, how2 = _has_disambiguation(g, init)
                    if ok2:
                        ok, how = ok2, how2
        rr.ob(f.relpath, f.qualname, norm(f.node.body[-1])[:80], st, DISCHARGED if ok else VIOLATED,
              how if ok else
              f"prepare_label {'; '.join(lossy[:3])} - and {how}: e.g. the keys \"a-b\" and \"ab\" (or \"fooBar\" and \"foo_bar\") "
              f"of one object both become the same field, the second silently replacing the first", f.node.lineno)
    # the owner recorded for a label is compared as it is: a truth test (`table.get(label) or name`) takes the marker of a reserved
    # label (None) and the key "" for 'nobody owns it'
    for g in base.methods.get("convert_field_name", []):
        for x in walk_no_nested(g.node):
            if isinstance(x, ast.BoolOp) and isinstance(x.op, ast.Or) and any(
                    isinstance(v, (ast.Call, ast.Subscript)) and "self._" in norm(v) and (".get(" in norm(v) or isinstance(v, ast.Subscript))
                    for v in x.values[:-1]):
                rr.instances += 1
                rr.ob(g.relpath, g.qualname, norm(x)[:70], "a label is free only if the table of labels has no entry for it", VIOLATED,
                      f"`{norm(x)[:50]}`: an entry that is None (a label reserved for a class name) or \"\" (owned by the empty key) counts as "
                      f"no entry: the field takes the name of the class nested next to it / two keys share one field", x.lineno)
            # ... and so does a comparison that puts None among the 'free' answers: `table.get(label) not in (None, name)` / `is None`
            if isinstance(x, ast.Compare) and len(x.ops) == 1 and isinstance(x.left, (ast.Call, ast.Subscript)) and "self._" in norm(x.left) \
                    and (".get(" in norm(x.left) or isinstance(x.left, ast.Subscript)):
                c0 = x.comparators[0]
                none_free = (isinstance(x.ops[0], (ast.In, ast.NotIn)) and isinstance(c0, (ast.Tuple, ast.List, ast.Set)) and any(
                    isinstance(e, ast.Constant) and e.value is None for e in c0.elts)) or (
                    isinstance(x.ops[0], (ast.Is, ast.IsNot, ast.Eq, ast.NotEq)) and isinstance(c0, ast.Constant) and c0.value is None)
                if none_free:
                    rr.instances += 1
                    rr.ob(g.relpath, g.qualname, norm(x)[:70], "a label is free only if the table of labels has no entry for it", VIOLATED,
                          f"`{norm(x)[:50]}`: an entry that is None marks a label reserved for the class name of a nested model; counting it as "
                          f"free lets the field take that name (key \"1day\" holding an object: class one_day and field one_day in one body)",
                          x.lineno)
    # overrides go through the base conversion (or hand back the key itself)
    for k in prog.subclasses(base, strict=True):
        for g in k.methods.get("convert_field_name", []):
            rr.instances += 1
            rets = [r for r in walk_no_nested(g.node) if isinstance(r, ast.Return) and r.value is not None]
            p = [a for a in g.params if a != "self"][0]
            bad = [r for r in rets if not (norm(r.value) == p or (isinstance(r.value, ast.Call) and norm(r.value.func).startswith("super()")
                                                                   and norm(r.value.func).endswith(".convert_field_name")))]
            raw = [r for r in rets if norm(r.value) == p]
            # a key handed back unchanged has to be known to the disambiguation, or a second key with that label collides
            reserved = True
            if raw:
                reserved = any(
                    (isinstance(x, ast.Assign) and isinstance(x.targets[0], ast.Subscript) and isinstance(x.targets[0].value, ast.Attribute)
                     and norm(x.targets[0].value.value) == "self") or
                    (isinstance(x, ast.Call) and isinstance(x.func, ast.Attribute) and x.func.attr in ("setdefault", "add", "update")
                     and isinstance(x.func.value, ast.Attribute) and norm(x.func.value.value) == "self")
                    for ms in k.methods.values() for m in ms for x in walk_no_nested(m.node))
            # ... and every one of them: the keys handed back are those of a constant collection, and the class reserves them in a
            # loop over the same collection
            partial = None
            if raw and reserved:
                handed = None
                for x in walk_no_nested(g.node):
                    if isinstance(x, ast.If) and isinstance(x.test, ast.Compare) and len(x.test.ops) == 1 and isinstance(x.test.ops[0], ast.In) \
                            and norm(x.test.left) == p and isinstance(x.test.comparators[0], (ast.Tuple, ast.List, ast.Set)) \
                            and any(r in raw for r in ast.walk(x)):
                        handed = {c.value for c in x.test.comparators[0].elts if isinstance(c, ast.Constant)}
                if handed:
                    covered = set()
                    for ms in k.methods.values():
                        for m in ms:
                            for lp in walk_no_nested(m.node):
                                if not (isinstance(lp, ast.For) and isinstance(lp.iter, (ast.Tuple, ast.List, ast.Set)) and isinstance(lp.target, ast.Name)):
                                    continue
                                v = lp.target.id
                                stores = any((isinstance(y, ast.Assign) and isinstance(y.targets[0], ast.Subscript) and norm(y.targets[0].slice) == v
                                              and norm(y.targets[0].value).startswith("self.")) or
                                             (isinstance(y, ast.Call) and isinstance(y.func, ast.Attribute) and y.func.attr in ("setdefault", "add")
                                              and norm(y.func.value).startswith("self.") and y.args and norm(y.args[0]) == v)
                                             for y in ast.walk(lp))
                                if stores and not has_escape(lp.body):
                                    covered |= {c.value for c in lp.iter.elts if isinstance(c, ast.Constant)}
                    if not handed <= covered:
                        partial = sorted(handed - covered)
                        reserved = False
            okk = not bad and reserved
            if partial:
                rr.ob(g.relpath, g.qualname, norm(rets[0])[:70] if rets else g.name, "an override of the field-name conversion keeps the "
                      "base class's disambiguation (it returns the inherited result, or a key it has reserved)", VIOLATED,
                      f"the keys {partial} are handed back as they are, but no loop over them reserves each one present in the model: with "
                      f"both `id` and `pk` in one object only one is reserved, and a third key with the label of the other (\"p-k\") "
                      f"gets the same field name", g.node.lineno)
                continue
            rr.ob(g.relpath, g.qualname, norm(rets[0])[:70] if rets else g.name, "an override of the field-name conversion keeps the "
                  "base class's disambiguation (it returns the inherited result, or a key it has reserved)", DISCHARGED if okk else VIOLATED,
                  f"`{norm(bad[0])[:50]}` bypasses the inherited conversion" if bad else
                  ("key itself (reserved by the class) / inherited result" if reserved else
                   f"`{norm(raw[0])[:40]}` hands the key back without reserving it: another key with the same label (\"p-k\" next to "
                   f"\"pk\") gets the same field name"), g.node.lineno)
    return rr


def rule_uniq2(ctx: Ctx) -> RuleResult:
    """Two models never get the same class name: there is a de-duplication step after the names were normalised."""
    rr = RuleResult("UNIQ-2", "class names are made distinct after the generators normalised them", floor=1)
    prog = ctx.prog
    mod = prog.module(BASE)
    entry = prog.func(BASE, "_generate_code")
    init = prog.func(BASE, "GenericModelCodeGenerator.__init__")
    renames = any(isinstance(n, ast.Call) and norm(n.func).endswith("set_raw_name") for n in walk_no_nested(init.node))
    lossy = _lossy_ops(ctx)
    rr.instances += 1
    st = ("the registry makes the raw model names unique, but the generators normalise them afterwards with a conversion that "
          "is not injective: a step after the construction of all generators and before rendering must separate names that "
          "fell together")
    if not renames or not lossy:
        rr.ob(entry.relpath, entry.qualname, "_generate_code", st, DISCHARGED,
              "generators do not rename models / the conversion is lossless", entry.node.lineno)
        return rr
    # helpers called by the entry function, in order
    calls = [n for n in walk_no_nested(entry.node) if isinstance(n, ast.Call) and isinstance(n.func, ast.Name) and n.func.id in mod.functions]
    calls.sort(key=lambda n: (n.lineno, n.col_offset))

    def shared_set_problem(f: FuncInfo):
        """For a recursive de-duplication pass: the set of names in use must be the same object at every nesting level,
        and the recursion must be unconditional."""
        recs = [n for n in walk_no_nested(f.node) if isinstance(n, ast.Call) and isinstance(n.func, ast.Name) and n.func.id == f.name]
        if not recs:
            # not recursive: it has to flatten the nested generators itself
            walks_nested = any(isinstance(n, (ast.For, ast.While)) for n in walk_no_nested(f.node)) and \
                sum(1 for g in ctx.prog.all_funcs() if g.parent is f) > 0
            return None if walks_nested else "the pass neither recurses into nested generators nor collects them"
        # the collection consulted by the membership test
        coll = None
        for n in walk_no_nested(f.node):
            if isinstance(n, (ast.While, ast.If)):
                for c in ast.walk(n.test):
                    if isinstance(c, ast.Compare) and any(isinstance(o, (ast.In, ast.NotIn)) for o in c.ops) and isinstance(c.comparators[0], ast.Name):
                        coll = c.comparators[0].id
        if coll is None:
            return None
        for r in recs:
            passed = [a for a in r.args if isinstance(a, ast.Name) and a.id == coll] + \
                     [k.value for k in r.keywords if isinstance(k.value, ast.Name) and k.value.id == coll]
            if not passed:
                others = [norm(a) for a in r.args[1:]] + [f"{k.arg}={norm(k.value)}" for k in r.keywords]
                return (f"the recursive call `{norm(r)[:60]}` does not hand the set `{coll}` itself to the nested level "
                        f"({', '.join(others) or 'nothing'} is passed): names are compared level by level only, so two classes "
                        f"under different parents (or a nested and a later root class) can still get the same name")
            # unconditional?
            p = f.module.parents.get(r)
            while p is not None and p is not f.node:
                if isinstance(p, (ast.If, ast.Try)) or (isinstance(p, ast.While)):
                    return (f"the recursive call `{norm(r)[:50]}` sits under `{norm(p.test)[:40] if hasattr(p, 'test') else 'try'}`: nested "
                            f"classes are de-duplicated only when that condition holds")
                p = f.module.parents.get(p)
        return None

    def dedups(f: FuncInfo) -> bool:
        has_set_name = any(isinstance(n, ast.Call) and norm(n.func).endswith("set_raw_name") for n in walk_no_nested(f.node))
        membership = any(isinstance(n, (ast.While, ast.If)) and any(isinstance(c, ast.Compare) and any(isinstance(o, (ast.In, ast.NotIn)) for o in c.ops)
                                                                   or (isinstance(c, ast.Compare) and any(isinstance(o, (ast.Gt, ast.GtE)) for o in c.ops))
                                                                   for c in ast.walk(n.test)) for n in walk_no_nested(f.node))
        reads_name = any(isinstance(n, ast.Attribute) and n.attr == "name" for n in walk_no_nested(f.node))
        return has_set_name and membership and reads_name

    def constructs(f: FuncInfo) -> bool:
        return any(isinstance(n, ast.Call) and isinstance(n.func, ast.Name) and n.func.id in f.params and "generator" in n.func.id
                   for n in walk_no_nested(f.node))

    def renders(f: FuncInfo) -> bool:
        return any(isinstance(n, ast.Call) and isinstance(n.func, ast.Attribute) and n.func.attr == "generate" for n in walk_no_nested(f.node))

    kinds = []
    for c in calls:
        g = mod.functions[c.func.id]
        kinds.append(("C" if constructs(g) else "") + ("D" if dedups(g) else "") + ("R" if renders(g) else ""))
    seq = "".join(k[:1] if k else "-" for k in kinds)
    ok = "C" in seq and "D" in seq and "R" in seq and seq.index("C") < seq.index("D") < seq.index("R")
    if ok:
        dfn = mod.functions[calls[seq.index("D")].func.id]
        prob = shared_set_problem(dfn)
        if prob:
            rr.ob(dfn.relpath, dfn.qualname, dfn.name, st, VIOLATED, prob, dfn.node.lineno)
            return rr
    rr.ob(entry.relpath, entry.qualname, " ; ".join(norm(c)[:40] for c in calls)[:110], st, DISCHARGED if ok else VIOLATED,
          f"construct -> de-duplicate -> render ({seq})" if ok else
          f"no de-duplication of class names between the construction of the generators and rendering (steps: {seq or 'none'}): "
          f"e.g. the keys \"café\" and \"cafe\" (or \"größe\" and \"grosse\") give two classes with the same name, the second "
          f"shadowing the first", entry.node.lineno)
    return rr


# ---------------------------------------------------------------------------------------------------------------
def _pl(ctx: Ctx) -> FuncInfo:
    return ctx.prog.func(BASE, "prepare_label")


def rule_label2(ctx: Ctx) -> RuleResult:
    """LABEL-2..4: the label is what Python will actually bind (NFKC), is not private (no leading underscore), is not empty."""
    rr = RuleResult("LABEL-2..4", "labels are normalised identifiers, never private, never empty", floor=4)
    f = _pl(ctx)
    mod = f.module
    s = f.params[0]
    nodes = list(walk_no_nested(f.node))
    # ---- LABEL-2: NFKC on the path that does not transliterate
    rr.instances += 1
    translit = [n for n in nodes if isinstance(n, ast.Call) and norm(n.func).split(".")[-1] == "unidecode"]
    nfkc = [n for n in nodes if isinstance(n, ast.Call) and norm(n.func).split(".")[-1] == "normalize" and n.args
            and isinstance(n.args[0], ast.Constant) and n.args[0].value == "NFKC"]
    ok = False
    why = "no unicodedata.normalize('NFKC', ...) in prepare_label"
    if nfkc:
        n0 = nfkc[0]
        # unconditional, or in the branch where transliteration is off
        par = mod.parents.get(n0)
        conds = []
        cur = n0
        while par is not None and par is not f.node:
            if isinstance(par, ast.If):
                conds.append((norm(par.test), any(cur is x or any(cur is y for y in ast.walk(x)) for x in par.body)))
            cur, par = par, mod.parents.get(par)
        ok = not conds or all((c == "convert_unicode" and not in_body) or (c == "not convert_unicode" and in_body) for c, in_body in conds)
        why = "" if ok else f"the normalisation is conditional on {conds}"
    elif not translit:
        why = "neither transliteration nor normalisation"
    rr.ob(f.relpath, f.qualname, norm(nfkc[0])[:60] if nfkc else "prepare_label", "when the key is not transliterated, the label is "
          "NFKC-normalised: Python normalises identifiers when it compiles the class, but not the strings that refer to the "
          "field (alias comparison, convert_strings([...]) paths), so `µ` (U+00B5) would name an attribute `μ` (U+03BC)",
          DISCHARGED if ok else VIOLATED, "normalised on the non-transliterating path" if ok else why, f.node.lineno)
    # ---- LABEL-2b: the normalised form survives the steps that delete characters (deleting a separator can bring two
    # characters together that combine: conjoining jamo, a letter and a combining mark)
    rr.instances += 1
    deleting = []
    for n in nodes:
        if isinstance(n, ast.Call) and norm(n.func) in ("re.sub", "sub") and len(n.args) >= 3 and isinstance(n.args[1], ast.Constant) \
                and n.args[1].value == "":
            deleting.append(n)
        if isinstance(n, ast.Call) and norm(n.func).endswith(".join") and n.args and isinstance(n.args[0], (ast.GeneratorExp, ast.ListComp)) \
                and any(g.ifs for g in n.args[0].generators) and norm(n.args[0].generators[0].iter) == s:
            deleting.append(n)
        if isinstance(n, ast.Call) and isinstance(n.func, ast.Attribute) and n.func.attr in ("replace", "translate") and \
                norm(n.func.value) == s and len(n.args) == 2 and isinstance(n.args[1], ast.Constant) and n.args[1].value == "":
            deleting.append(n)
    if translit and not nfkc:
        rr.ob(f.relpath, f.qualname, "normalisation after the deleting steps", "the label handed to the de-duplication is in NFKC form",
              DISCHARGED, "always transliterated to ASCII", f.node.lineno)
    else:
        last_del = max((n.lineno for n in deleting), default=0)
        after = [n for n in nfkc if n.lineno > last_del or (n.lineno == last_del and any(d is x for d in deleting for x in ast.walk(n)))]
        okb = bool(after) or not deleting
        rr.ob(f.relpath, f.qualname, "normalisation after the deleting steps", "the label handed to the de-duplication is in NFKC form: two "
              "keys whose labels Python reads as one identifier are recognised as colliding (the labels are compared as strings)",
              DISCHARGED if okb else VIOLATED,
              "normalised after the last deleting step" if okb else
              f"characters are deleted at line {last_del}, after the last NFKC normalisation: 'ᄀ-ᅡ' loses its hyphen and becomes two "
              f"conjoining jamo, a string different from '가' but the same identifier - one field for two keys", last_del or f.node.lineno)
    # ---- LABEL-4: the label is never empty when its first character is inspected, and an empty one is replaced
    rr.instances += 1
    subs = [n for n in nodes if isinstance(n, ast.Subscript) and isinstance(n.value, ast.Name) and n.value.id == s
            and isinstance(n.slice, ast.Constant) and n.slice.value == 0]
    unguarded = []
    for sb in subs:
        guarded = False
        cur, par = sb, mod.parents.get(sb)
        while par is not None and par is not f.node:
            if isinstance(par, ast.BoolOp) and isinstance(par.op, ast.And):
                idx = next((i for i, v in enumerate(par.values) if v is cur or any(cur is y for y in ast.walk(v))), None)
                if idx and any(norm(v) in (s, f"len({s})", f"len({s}) > 0", f"{s} != ''", f"{s}.strip('_')", f"{s}.lstrip('_')")
                               for v in par.values[:idx]):
                    guarded = True
            if isinstance(par, (ast.If, ast.While)) and any(cur is x or any(cur is y for y in ast.walk(x)) for x in par.body):
                tests = [par.test] + (list(par.test.values) if isinstance(par.test, ast.BoolOp) and isinstance(par.test.op, ast.And) else [])
                if any(norm(t) in (s, f"len({s})", f"len({s}) > 0", f"{s} != ''", f"{s}.strip('_')", f"{s}.lstrip('_')") for t in tests):
                    guarded = True
            cur, par = par, mod.parents.get(par)
        if not guarded:
            unguarded.append(sb)
    fallback = any(isinstance(n, ast.If) and isinstance(n.test, ast.UnaryOp) and isinstance(n.test.op, ast.Not) and s in
                   {x.id for x in ast.walk(n.test) if isinstance(x, ast.Name)} and any(
        isinstance(b, ast.Assign) and norm(b.targets[0]) == s and any(isinstance(c, ast.Constant) and isinstance(c.value, str)
                                                                        and c.value.isidentifier() for c in ast.walk(b.value))
        for b in n.body) for n in nodes)
    ok = not unguarded and fallback
    rr.ob(f.relpath, f.qualname, norm(unguarded[0]) if unguarded else f"{s}[0]", "a key without any letter or digit (\"\", \"-\", "
          "\"_\") still gets a name: the first character is looked at only when there is one, and an empty label is replaced",
          DISCHARGED if ok else VIOLATED,
          "guarded and replaced" if ok else
          (f"`{norm(unguarded[0])}` is evaluated although re.sub may have left nothing: IndexError for the keys \"\" and \"-\""
           if unguarded else "an empty label is not replaced by a name"), (unguarded[0].lineno if unguarded else f.node.lineno))
    # ---- LABEL-3: no leading underscore
    rr.instances += 1
    moves = [n for n in nodes if isinstance(n, ast.Call) and isinstance(n.func, ast.Attribute) and n.func.attr in ("lstrip", "strip")
             and n.args and isinstance(n.args[0], ast.Constant) and n.args[0].value == "_" and norm(n.func.value) == s]
    loops = [n for n in nodes if isinstance(n, ast.While) and f"{s}.startswith('_')" in norm(n.test)]
    # the step must come after the last producer of a leading underscore (the digit rewrite)
    digit = [n for n in nodes if isinstance(n, ast.Assign) and norm(n.targets[0]) == s and "ones[" in norm(n.value)]
    after = [m for m in moves + loops if not digit or m.lineno > max(d.lineno for d in digit)]
    ok = bool(after)
    rr.ob(f.relpath, f.qualname, norm(mod.parents.get(after[0]))[:60] if after else "prepare_label",
          "a label never starts with an underscore (pydantic drops such a field silently as a private attribute, attrs "
          "renames its constructor argument): leading underscores, including the one the rewrite of a leading `0` produces, "
          "are removed or moved", DISCHARGED if ok else VIOLATED,
          "leading underscores are taken off after the digit rewrite" if ok else
          "nothing removes a leading underscore: the key \"_x\" gives the pydantic field `_x`, which pydantic ignores (the "
          "value is dropped), and \"0abc\" gives `_abc`", f.node.lineno)
    return rr


# ---------------------------------------------------------------------------------------------------------------
# LABEL-5: abstract interpretation of prepare_label over the class of the label's first character.
#   L letter, D decimal digit, U underscore followed by something else, A nothing but underscores, E empty
_ALL = frozenset("LDUAE")


def _head_effect(f: FuncInfo, st: ast.stmt, s: str, state: frozenset, zero_empty: bool):
    """Transfer function of one top-level statement of prepare_label on the first-character class (None = unknown shape)."""
    txt = norm(st)
    touches = any(isinstance(x, ast.Name) and x.id == s and isinstance(x.ctx, ast.Store) for x in ast.walk(st))
    if not touches:
        return state, None
    # s = unidecode(s) / normalize(...) / underscore(s) / s += "_" : the head class is unchanged, except that non-word
    # characters may appear or disappear (only before the stripping step)
    if isinstance(st, ast.AugAssign) and isinstance(st.op, ast.Add):
        return state, None
    if isinstance(st, ast.Assign) and isinstance(st.value, ast.BinOp) and isinstance(st.value.op, ast.Add) and \
            isinstance(st.value.left, ast.Constant) and isinstance(st.value.left.value, str) and st.value.left.value and \
            norm(st.value.right) == s:
        c0 = st.value.left.value[0]
        return frozenset("L" if c0.isalpha() else ("D" if c0.isdecimal() else ("U" if c0 == "_" else "LDU"))), None
    if isinstance(st, ast.If) and isinstance(st.test, ast.UnaryOp) and isinstance(st.test.op, ast.Not) and \
            norm(st.test.operand) in (f"{s}.strip('_')", s, f"{s}.lstrip('_')"):
        # only labels without any letter or digit take the branch
        takes = state & ({"A", "E"} if "strip" in norm(st.test.operand) else {"E"})
        cur = frozenset(takes)
        for b in st.body:
            if cur:
                cur, err = _head_effect(f, b, s, cur, zero_empty)
                if err:
                    return state, err
        return frozenset((state - takes) | cur), None
    if isinstance(st, ast.If) and not _mentions_head(st.test, s):
        # a branch that does not look at the head: join of the branches
        out = set()
        for body in (st.body, st.orelse or []):
            cur = state
            for b in body:
                cur, err = _head_effect(f, b, s, cur, zero_empty)
                if err:
                    return state, err
            out |= cur
        if not st.orelse:
            out |= state
        if isinstance(st.test, ast.UnaryOp) and f"{s}.strip('_')" in norm(st.test.operand):
            # `if not s.strip('_'): s = "<identifier>" + s`: only A and E take the branch
            rest = state - {"A", "E"}
            took = set()
            cur = frozenset(state & {"A", "E"})
            for b in st.body:
                if isinstance(b, ast.Assign) and isinstance(b.value, ast.BinOp) and isinstance(b.value.left, ast.Constant) \
                        and isinstance(b.value.left.value, str) and b.value.left.value[:1].isalpha():
                    cur = frozenset("L") if cur else cur
            return frozenset(rest | cur), None
        return frozenset(out), None
    if isinstance(st, ast.Assign) and isinstance(st.value, ast.Call):
        fn = norm(st.value.func)
        if fn.endswith("re.sub") or fn == "sub":
            return _ALL, None
        if fn.endswith(".join") and st.value.args and isinstance(st.value.args[0], (ast.GeneratorExp, ast.ListComp)) and \
                norm(st.value.args[0].generators[0].iter) == s and norm(st.value.args[0].elt) == norm(st.value.args[0].generators[0].target):
            return _ALL, None       # a subsequence of the characters: any head class is possible afterwards
        if fn.split(".")[-1] in ("unidecode", "normalize", "underscore", "camelize", "lower", "upper"):
            return state, None
    if isinstance(st, ast.Assign) and f"{s}.lstrip('_')" in txt:
        return state, None          # only computes the count
    if isinstance(st, ast.Assign) and isinstance(st.value, ast.BinOp) and "lstrip" not in txt:
        v = norm(st.value)
        # s = s[head:] + s[:head]
        if re.fullmatch(rf"{s}\[(\w+):\] \+ {s}\[:\1\]", v):
            out = set()
            for c in state:
                out |= {"L", "D", "A"} if c == "U" else {c}
            return frozenset(out), None
    if isinstance(st, ast.If) and _mentions_head(st.test, s):
        # digit rewrite: if <s[0] is a digit>: s = ones[...] + "_" + s[1:]
        if _is_digit_test(st.test, s) and any("ones[" in norm(b) for b in st.body):
            out = set()
            for c in state:
                out |= ({"L", "U"} if zero_empty else {"L"}) if c == "D" else {c}
            # "0" alone -> "_" : nothing but underscores
            if "D" in state and zero_empty:
                out.add("A")
            return frozenset(out), None
        if _is_underscore_test(st.test, s) and any(re.fullmatch(rf"{s} = {s}\[1:\] \+ '_'", norm(b)) for b in st.body):
            out = set()
            for c in state:
                out |= {"L", "D", "U", "A"} if c == "U" else {c}
            return frozenset(out), None
    if isinstance(st, ast.If) and _mentions_head(st.test, s) and not _is_digit_test(st.test, s) and not _is_underscore_test(st.test, s):
        out = set(state)
        for body in (st.body, st.orelse or []):
            cur = state
            for b in body:
                cur, err = _head_effect(f, b, s, cur, zero_empty)
                if err:
                    return state, err
            out |= cur
        return frozenset(out), None
    if isinstance(st, ast.While):
        t = norm(st.test)
        exit_alpha = f"not {s}[0].isalpha()" in t or f"not {s}[:1].isalpha()" in t or f"not {s}.isidentifier()" in t or (
            f"{s}[0].isidentifier()" in t and f"{s}[0] != '_'" in t and "not (" in t)
        # the normal form (sa/canon.py) of `not (s[0] != '_' and s[0].isidentifier())`: the loop goes on while the head is an
        # underscore or no identifier start
        disj = {norm(d) for x in ast.walk(st.test) if isinstance(x, ast.BoolOp) and isinstance(x.op, ast.Or) for d in x.values}
        if {f"{s}[0] == '_'", f"not {s}[0].isidentifier()"} <= disj or {f"{s}[0] == '_'", f"not {s}[0].isalpha()"} <= disj:
            exit_alpha = True
        guarded = f"{s}.strip('_')" in t or f"{s}.lstrip('_')" in t or t.startswith(f"{s} and")
        if exit_alpha and guarded:
            # every iteration must change s (otherwise the loop does not end for some class)
            return frozenset({"L"} | ({"A", "E"} & (state | {"A"}))), None
        if _is_underscore_test(st.test, s):
            out = set()
            for c in state:
                out |= {"L", "D", "A"} if c == "U" else {c}
            return frozenset(out), None
    if isinstance(st, (ast.Assign, ast.AnnAssign)) and not isinstance(st, ast.AugAssign):
        # any other plain assignment: nothing is known about the new head (sound: the later steps must re-establish it)
        return _ALL, None
    return state, f"unrecognised statement shaping the head of the label: `{txt[:70]}`"


def _mentions_head(test: ast.AST, s: str) -> bool:
    t = norm(test)
    return f"{s}[0]" in t or f"{s}.startswith" in t or f"{s}[:1]" in t


def _is_digit_test(test: ast.AST, s: str) -> bool:
    t = norm(test)
    return ("'0' <= " + s + "[0]") in t or f"{s}[0].isdigit()" in t or f"{s}[0].isdecimal()" in t or f"{s}[0] in " in t and "0123456789" in t


def _is_underscore_test(test: ast.AST, s: str) -> bool:
    t = norm(test)
    return f"{s}[0] == '_'" in t or f"{s}.startswith('_')" in t


def rule_label5(ctx: Ctx) -> RuleResult:
    rr = RuleResult("LABEL-5", "whatever the key, the label starts with a letter", floor=1)
    f = _pl(ctx)
    s = f.params[0]
    ones = f.module.assigns.get("ones")
    zero_empty = True
    if ones and isinstance(ones[-1], (ast.List, ast.Tuple)) and ones[-1].elts and isinstance(ones[-1].elts[0], ast.Constant):
        zero_empty = ones[-1].elts[0].value == ""
    state = _ALL
    trace = []
    rr.instances += 1
    st_txt = ("abstract run of prepare_label over the class of the first character (letter / digit / underscore / only "
              "underscores / empty): at the return the label starts with a letter for every class the key can start with")
    for st in f.node.body:
        if isinstance(st, ast.Expr) and isinstance(st.value, ast.Constant):
            continue
        if isinstance(st, ast.Return):
            break
        # statements after the head is final (case conversion, black-list suffix) do not change the first class
        is_helper_call = isinstance(st, ast.Assign) and norm(st.targets[0]) == s and isinstance(st.value, ast.Call) and \
            isinstance(st.value.func, ast.Name) and len(st.value.args) == 1 and norm(st.value.args[0]) == s and \
            st.value.func.id in f.module.functions and len(f.module.functions[st.value.func.id].params) == 1
        new, err = (state, "helper") if is_helper_call else _head_effect(f, st, s, state, zero_empty)
        if is_helper_call:
            # a helper of the same module that takes the label and returns it: run it abstractly
            h = f.module.functions.get(st.value.func.id)
            if h is not None and len(h.params) == 1:
                hp = h.params[0]
                cur, err = state, None
                for hst in h.node.body:
                    if isinstance(hst, ast.Return):
                        if hst.value is None or norm(hst.value) != hp:
                            err = f"helper {h.name} returns `{norm(hst)[:40]}`"
                        break
                    if isinstance(hst, ast.Expr) and isinstance(hst.value, ast.Constant):
                        continue
                    cur, err = _head_effect(h, hst, hp, cur, zero_empty)
                    if err:
                        break
                if not err:
                    new = cur
        if err:
            raise AnalysisError(f"LABEL-5: {err}")
        if new != state:
            trace.append(f"line {st.lineno}: {''.join(sorted(state))} -> {''.join(sorted(new))}")
        state = new
    ok = state <= {"L"}
    names = {"D": "a digit", "U": "an underscore", "A": "nothing but underscores", "E": "nothing"}
    rr.ob(f.relpath, f.qualname, "first character of the label", st_txt, DISCHARGED if ok else VIOLATED,
          ("always a letter; " + "; ".join(trace)) if ok else
          ("the label can start with " + ", ".join(names[c] for c in sorted(state - {"L"})) + " (" + "; ".join(trace) +
           "): e.g. the key \"_1abc\" loses its underscore to the end and keeps the digit in front, which is no identifier"),
          f.node.lineno)
    return rr


# ---------------------------------------------------------------------------------------------------------------
def _prerender_steps(ctx: Ctx) -> List[FuncInfo]:
    """Module functions of models/base.py that _generate_code calls before the rendering step, in call order (transitively
    one level: helpers of helpers are included)."""
    prog = ctx.prog
    mod = prog.module(BASE)
    entry = prog.func(BASE, "_generate_code")
    out: List[FuncInfo] = []
    calls = [n for n in walk_no_nested(entry.node) if isinstance(n, ast.Call) and isinstance(n.func, ast.Name) and n.func.id in mod.functions]
    calls.sort(key=lambda n: (n.lineno, n.col_offset))
    for c in calls:
        g = mod.functions[c.func.id]
        renders = any(isinstance(n, ast.Call) and isinstance(n.func, ast.Attribute) and n.func.attr == "generate" for n in walk_no_nested(g.node))
        if renders:
            break
        out.append(g)
    return out


def rule_uniq3(ctx: Ctx) -> RuleResult:
    rr = RuleResult("UNIQ-3", "colliding class names get their suffixes in an order both layouts share", floor=1)
    steps = _prerender_steps(ctx)
    ded = [g for g in steps if any(isinstance(n, ast.Call) and norm(n.func).endswith("set_raw_name") for n in ast.walk(g.node))]
    rr.instances += 1
    st = ("which of two models gets `Cafe` and which `Cafe_` does not depend on the layout: the renaming loop runs over the models "
          "in an order taken from the registry (their indexes), not in the order the layout lists them")
    if not ded:
        rr.ob(BASE, "_generate_code", "class-name de-duplication", st, VIOLATED, "no de-duplication step before rendering (see UNIQ-2)", 1)
        return rr
    g = ded[0]
    # the loop around the renaming call
    ok = False
    why = "the renaming loop iterates the generators as the layout lists them"
    for lp in ast.walk(g.node):
        if isinstance(lp, ast.For) and any(isinstance(n, ast.Call) and norm(n.func).endswith("set_raw_name") for n in ast.walk(lp)):
            it = lp.iter
            if isinstance(it, ast.Call) and norm(it.func) == "sorted" and any(k.arg == "key" and "index" in norm(k.value) for k in it.keywords):
                ok = True
            elif isinstance(it, ast.Name):
                for d in ast.walk(g.node):
                    if isinstance(d, ast.Assign) and norm(d.targets[0]) == it.id and isinstance(d.value, ast.Call) and \
                            norm(d.value.func) == "sorted" and any(k.arg == "key" and "index" in norm(k.value) for k in d.value.keywords):
                        ok = True
                    if isinstance(d, ast.Call) and isinstance(d.func, ast.Attribute) and d.func.attr == "sort" and norm(d.func.value) == it.id \
                            and any(k.arg == "key" and "index" in norm(k.value) for k in d.keywords):
                        ok = True
            if not ok:
                why = f"the renaming loop runs over `{norm(it)[:50]}`: layout order (a merged parent stands after its children in the flat list and before them in the nested tree)"
    rr.ob(g.relpath, g.qualname, g.name, st, DISCHARGED if ok else VIOLATED, "sorted by model index" if ok else why, g.node.lineno)
    return rr


def rule_uniq4(ctx: Ctx) -> RuleResult:
    rr = RuleResult("UNIQ-4", "no field gets the name of a child model's class", floor=1)
    steps = _prerender_steps(ctx)
    rr.instances += 1
    st = ("in the nested layout the class of a child model is defined in its parent's class body, next to the fields: before "
          "anything is rendered, every generator is told the class names of its model's children so that no field label equals one")
    hit = None
    ded_idx = next((i for i, g in enumerate(steps) if any(isinstance(n, ast.Call) and norm(n.func).endswith("set_raw_name")
                                                          for n in ast.walk(g.node))), None)
    def _transitive_helper(call: ast.AST, mod) -> bool:
        """`helper(<model>)` where helper walks child_pointers with a work list or by recursion"""
        if not (isinstance(call, ast.Call) and isinstance(call.func, ast.Name)):
            return False
        hs = [h for h in mod.all_funcs if h.qualname == call.func.id]
        for h in hs:
            walks = any(isinstance(x, ast.Attribute) and x.attr == "child_pointers" for x in ast.walk(h.node))
            again = any(isinstance(x, ast.While) for x in ast.walk(h.node)) and any(
                isinstance(x, ast.Call) and isinstance(x.func, ast.Attribute) and x.func.attr in ("append", "extend", "add", "update")
                for x in ast.walk(h.node)) or any(isinstance(x, ast.Call) and norm(x.func) == h.name for x in ast.walk(h.node)) or any(
                isinstance(g_, ast.FunctionDef) and g_ is not h.node and any(isinstance(x, ast.Call) and norm(x.func) == g_.name
                                                                             for x in ast.walk(g_)) for g_ in ast.walk(h.node))
            if walks and again:
                return True
        return False

    for gi, g in enumerate(steps):
        for n in ast.walk(g.node):
            if isinstance(n, ast.Call) and isinstance(n.func, ast.Attribute) and n.args and (
                    "reserve" in n.func.attr or n.func.attr in ("setdefault", "add")):
                lp = None
                for x in ast.walk(g.node):
                    if isinstance(x, ast.For) and any(n is y for y in ast.walk(x)):
                        lp = x
                if lp is None:
                    continue
                walked = lp.iter
                if ".name" not in norm(n.args[0]):
                    # the names projected first: `for name in [m.name for m in <models>]: reserve(name)`
                    if not (isinstance(lp.target, ast.Name) and norm(n.args[0]) == lp.target.id and isinstance(walked, (ast.ListComp, ast.GeneratorExp))
                            and len(walked.generators) == 1 and not walked.generators[0].ifs and isinstance(walked.generators[0].target, ast.Name)
                            and norm(walked.elt) == f"{walked.generators[0].target.id}.name"):
                        continue
                    walked = walked.generators[0].iter
                kind = "descendants" if _transitive_helper(walked, g.module) else (
                    "children" if "child_pointers" in norm(walked) else ("layout" if "nested" in norm(walked) else None))
                if kind is None:
                    continue
                rank = {"descendants": 3, "children": 2, "layout": 1}[kind]
                if hit is None or rank > hit[2]:
                    hit = (g, n, rank, gi, kind)
    if hit is None:
        rr.ob(BASE, "_generate_code", "field labels vs child class names", st, VIOLATED,
              "no step before rendering reserves the class names of child models among the field labels: a key that gives the same "
              "label as field and as class (\"1\" -> one_) rebinds the nested class to the field's default", 1)
    else:
        g, n, rank, gi, kind = hit
        late = ded_idx is None or gi > ded_idx
        layout_dependent = any(isinstance(x, ast.For) and "nested" in norm(x.iter) and any(
            isinstance(y, ast.Call) and isinstance(y.func, ast.Attribute) and ("reserve" in y.func.attr) for y in ast.walk(x))
            for x in ast.walk(g.node))
        if kind != "descendants" or layout_dependent:
            rr.ob(g.relpath, g.qualname, norm(n)[:70], st, VIOLATED,
                  ("the classes the layout happens to nest below a class are reserved: the flat layout (which nests nothing) hands out "
                   "other field names than the nested one (`X` there, `X_` here)") if layout_dependent or kind == "layout" else
                  "only the direct children are reserved: a model that several children share is nested in the root's body without being "
                  "its child, and a field of the root can take its class name", n.lineno)
            return rr
        rr.ob(g.relpath, g.qualname, norm(n)[:70], st, DISCHARGED if late else VIOLATED,
              "reserved from the model graph, every model below the class (same labels in both layouts)" if late else
              "the class names are reserved BEFORE the de-duplication step renames some of them: a field can dodge the old name and "
              "land exactly on the new one (\"1\" and \"#1\": class one__ and field one__ in one body)", n.lineno)
        # every generator of every level is visited: nothing leaves the loop over the generators early
        outer = next((x for x in g.node.body if isinstance(x, ast.For) and any(n is y for y in ast.walk(x))), None)
        if outer is not None:
            rr.instances += 1
            esc = has_escape(outer.body) or any(isinstance(x, ast.Continue) for x in ast.walk(outer))
            rr.ob(g.relpath, g.qualname, f"for {norm(outer.target)} in {norm(outer.iter)}: ...", "the reservation reaches every class of "
                  "every level", VIOLATED if esc else DISCHARGED,
                  "a return / break / continue in the loop over the generators: the classes that follow on that level (and everything "
                  "nested in them) keep unreserved names" if esc else "no early exit", outer.lineno)
        # what a reserved label is recorded with can never equal a key
        base_cls = ctx.prog.cls(BASE, "GenericModelCodeGenerator")
        for m in base_cls.methods.get("reserve_field_name", []):
            for c in walk_no_nested(m.node):
                if isinstance(c, ast.Call) and isinstance(c.func, ast.Attribute) and c.func.attr == "setdefault" and len(c.args) == 2:
                    rr.instances += 1
                    owner = c.args[1]
                    okv = isinstance(owner, ast.Constant) and not isinstance(owner.value, str)
                    rr.ob(m.relpath, m.qualname, norm(c)[:70], "a reserved label is recorded with an owner no key can be equal to (keys are "
                          "strings), so that the key spelled like the label does not get it either", DISCHARGED if okv else VIOLATED,
                          f"owner `{norm(owner)}`" if okv else
                          f"the owner recorded is `{norm(owner)[:30]}`, a string: the key equal to it is taken for the owner and gets the "
                          f"reserved label - the field `X` next to the nested `class X` in one body", c.lineno)
    return rr


def rule_uniq5(ctx: Ctx) -> RuleResult:
    rr = RuleResult("UNIQ-5", "colliding field names get their suffixes in an order that does not depend on the samples", floor=1)
    steps = _prerender_steps(ctx)
    rr.instances += 1
    st = ("which of two colliding keys keeps the plain label is decided by the keys themselves: the labels are handed out in sorted "
          "key order before rendering, not in the order in which the samples happened to introduce the fields")
    hit = None
    for g in steps:
        for lp in ast.walk(g.node):
            if isinstance(lp, ast.For) and isinstance(lp.iter, ast.Call) and norm(lp.iter.func) == "sorted" and \
                    ".type" in norm(lp.iter) and any(isinstance(n, ast.Call) and norm(n.func).endswith("convert_field_name") for n in ast.walk(lp)):
                hit = (g, lp)
                keyed = [k for k in lp.iter.keywords if k.arg == "key"]
                if keyed:
                    rr.ob(g.relpath, g.qualname, norm(lp.iter)[:60], st, VIOLATED,
                          f"the keys are sorted with `key={norm(keyed[0].value)[:30]}`: keys that this function maps to the same value "
                          f"(\"Name\" / \"name\") tie and keep the order in which the samples brought them", lp.lineno)
                    return rr
    prog = ctx.prog
    base = prog.cls(BASE, "GenericModelCodeGenerator")
    init = prog.func(BASE, "GenericModelCodeGenerator.__init__")
    conv = base.methods.get("convert_field_name", [None])[0]
    dedups = conv is not None and _has_disambiguation(conv, init)[0]
    if not dedups:
        rr.ob(BASE, "GenericModelCodeGenerator.convert_field_name", "label order", st, DISCHARGED,
              "labels are a function of the key alone here (UNIQ-1 judges that)", 1)
    elif hit is None:
        rr.ob(BASE, "_generate_code", "order of label assignment", st, VIOLATED,
              "labels are first requested while the fields are rendered, i.e. in field order, which follows the order of the samples: "
              "[{'a-b': 1}, {'ab': 'x'}] and the same samples swapped give the two fields each other's name", 1)
    else:
        g, lp = hit
        rr.ob(g.relpath, g.qualname, norm(lp.iter)[:60], st, DISCHARGED, "labels handed out in sorted key order before rendering", lp.lineno)
    return rr


def rule_label6(ctx: Ctx) -> RuleResult:
    """LABEL-6: every character kept in a label is one Python allows in an identifier."""
    rr = RuleResult("LABEL-6", "a label consists of identifier characters only", floor=1)
    f = _pl(ctx)
    s = f.params[0]
    rr.instances += 1
    st = ("`\\w` is wider than Python's identifier characters (it keeps numeric characters of category No such as U+09F4 or U+2780, "
          "and str.isalpha() accepts U+2E2F, which cannot start an identifier): when the key is not transliterated to ASCII the "
          "label is filtered with str.isidentifier()")
    nodes = list(walk_no_nested(f.node))
    translit_only = not any(isinstance(n, ast.If) and "convert_unicode" in norm(n.test) for n in nodes) and any(
        isinstance(n, ast.Call) and norm(n.func).split(".")[-1] == "unidecode" for n in nodes)
    # a per-character filter through isidentifier, or an ASCII-only character class
    ident_filter = any(isinstance(n, ast.Call) and isinstance(n.func, ast.Attribute) and n.func.attr == "isidentifier" for n in nodes)
    ascii_class = any(isinstance(n, ast.Call) and norm(n.func).endswith("re.sub") and n.args and isinstance(n.args[0], ast.Constant)
                      and isinstance(n.args[0].value, str) and "[^" in n.args[0].value and "\\w" not in n.args[0].value for n in nodes) or \
        any(isinstance(n, ast.Attribute) and n.attr == "ASCII" for n in nodes)
    start_alpha = any(isinstance(n, ast.Call) and isinstance(n.func, ast.Attribute) and n.func.attr == "isalpha" and
                      isinstance(n.func.value, ast.Subscript) and norm(n.func.value.value) == s for n in nodes)
    ok = translit_only or ascii_class or (ident_filter and not start_alpha)
    rr.ob(f.relpath, f.qualname, "characters kept by prepare_label", st, DISCHARGED if ok else VIOLATED,
          "filtered with isidentifier()" if ok else
          ("the first character is tested with isalpha(), which accepts characters that cannot start an identifier (U+2E2F)"
           if ident_filter and start_alpha else
           "only `\\W` is removed: with unicode conversion off the key \"a৴\" (U+09F4) gives the field `a৴`, a SyntaxError in the "
           "generated module"), f.node.lineno)
    return rr


# ---------------------------------------------------------------------------------------------------------------
def rule_uniq6(ctx: Ctx) -> RuleResult:
    """The de-duplication of class names sees every class of the module and records every name it hands out."""
    from ..paths import enumerate_paths
    rr = RuleResult("UNIQ-6", "class-name de-duplication covers every nesting level and records every name it assigns", floor=2)
    f = ctx.prog.func(BASE, "_fix_class_name_duplicates")
    mod = f.module
    # (a) the models are collected from every level: a function that calls itself on the nested generators, or a work list
    rr.instances += 1
    helpers = [g for g in ctx.prog.all_funcs() if g.parent is f]
    scopes = [f] + helpers + [h for h in mod.all_funcs if h.parent is None and any(
        isinstance(c, ast.Call) and isinstance(c.func, ast.Name) and c.func.id == h.name for c in walk_no_nested(f.node)) and h is not f]
    recursive = [g for g in scopes if any(isinstance(c, ast.Call) and isinstance(c.func, ast.Name) and c.func.id == g.name
                                          for c in walk_no_nested(g.node))]
    worklist = [g for g in scopes if any(isinstance(w, ast.While) and isinstance(w.test, ast.Name) and any(
        isinstance(c, ast.Call) and isinstance(c.func, ast.Attribute) and c.func.attr in ("pop", "popleft") and norm(c.func.value) == w.test.id
        for c in ast.walk(w)) and any(isinstance(c, ast.Call) and isinstance(c.func, ast.Attribute) and c.func.attr in ("append", "extend")
                                      and norm(c.func.value) == w.test.id for c in ast.walk(w)) for w in walk_no_nested(g.node))]
    ok = bool(recursive or worklist)
    rr.ob(f.relpath, f.qualname, "collection of the models of every level",
          "the generators form a tree (classes nested in classes nested in classes): the models are gathered by a function that calls "
          "itself on the nested generators, or by a work list", DISCHARGED if ok else VIOLATED,
          f"{(recursive or worklist)[0].qualname} walks the whole tree" if ok else
          "nothing recurses into the nested generators and there is no work list: classes below the second level are not de-duplicated, "
          "so `cafe` at the top and `café` three levels down both become `Cafe` in the nested layout (and `Cafe` / `Cafe_` in the flat one)",
          f.node.lineno)
    # (b) every name handed out is recorded: on every way through the loop body the set tested by `while <name> in <used>` gets <name>
    loops = [w for w in walk_no_nested(f.node) if isinstance(w, ast.While) and isinstance(w.test, ast.Compare) and len(w.test.ops) == 1
             and isinstance(w.test.ops[0], ast.In) and isinstance(w.test.comparators[0], ast.Name)]
    if not loops:
        raise AnalysisError("UNIQ-6: the `while <name> in <used>` loop of _fix_class_name_duplicates was not found")
    w = loops[0]
    name_expr, used = norm(w.test.left), w.test.comparators[0].id
    outer = enclosing_loop(mod, w)
    if not isinstance(outer, ast.For):
        raise AnalysisError("UNIQ-6: the renaming loop over the models was not found")
    rr.instances += 1
    bad = None
    for pth in enumerate_paths(outer.body):
        if pth.exit == "raise":
            continue
        def recorded(s_):
            """the expression a statement puts into `used`: used.add(x), used.update((x,)) / ({x}) / ([x]), used |= {x}"""
            if isinstance(s_, ast.Expr) and isinstance(s_.value, ast.Call) and isinstance(s_.value.func, ast.Attribute) \
                    and norm(s_.value.func.value) == used and len(s_.value.args) == 1:
                a_ = s_.value.args[0]
                if s_.value.func.attr == "add":
                    return a_
                if s_.value.func.attr == "update" and isinstance(a_, (ast.Tuple, ast.List, ast.Set)) and len(a_.elts) == 1:
                    return a_.elts[0]
            if isinstance(s_, ast.AugAssign) and isinstance(s_.op, ast.BitOr) and norm(s_.target) == used and isinstance(s_.value, ast.Set) \
                    and len(s_.value.elts) == 1:
                return s_.value.elts[0]
            return None
        late = [(s_, recorded(s_)) for s_ in pth.stmts() if recorded(s_) is not None and s_.lineno > w.lineno]
        if not late:
            bad = f"on the path `{pth.describe()[:70]}` nothing is added to `{used}` after the name was chosen"
            break
        if not any(norm(x) == name_expr for _, x in late):
            bad = (f"`{norm(late[0][0])[:50]}` records another expression than the one the loop makes unique (`{name_expr}`): the name "
                   f"that was just handed out is not taken into account for the next model")
            break
    rr.ob(f.relpath, f.qualname, f"{used}.add({name_expr})", "the name a class ends up with is recorded as taken before the next class is "
          "looked at, on every way through the loop", VIOLATED if bad else DISCHARGED,
          bad + ": three classes that fall together (`café`, `cafe`, `cafè`) give `Cafe`, `Cafe_`, `Cafe_`" if bad else
          "recorded on every path, as the very name the loop settled on", w.lineno)
    return rr
