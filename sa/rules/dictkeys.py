"""C13 rules: RX-1 (CLI pattern anchoring), DK-1..3 (dict-vs-model decision)."""
from __future__ import annotations

import ast
from typing import List, Optional

from ..consts import HOLE, regex_hole_is_grouped
from ..ctx import Ctx
from ..model import AnalysisError, FuncInfo, norm, walk_no_nested
from ..report import ALLOWED, DISCHARGED, VIOLATED, RuleResult
from ..strsym import StrSym, describe, text_of
from ..util import enclosing_loop, names_in

GEN = "json_to_models/generator.py"


def _pattern_variants(ctx: Ctx, ss: StrSym, fi: FuncInfo, e: ast.AST, env, depth=0):
    """[(variants, flags?, site function, node)] for the text that ends up compiled from element expression ``e``."""
    if isinstance(e, ast.Call) and norm(e.func) in ("re.compile", "compile"):
        flags = len(e.args) > 1 or bool(e.keywords)
        return [(ss.variants(fi, fi.module, e.args[0], env), flags, fi, e)]
    if isinstance(e, ast.Call) and depth < 3:
        tgs = [t for t in ctx.cg.resolve_call(fi, fi.module, e) if isinstance(t, FuncInfo)]
        out = []
        for t in tgs:
            bind = ss._bind(fi, fi.module, t, e, env, 0)
            for r in walk_no_nested(t.node):
                if isinstance(r, ast.Return) and r.value is not None:
                    out += _pattern_variants(ctx, ss, t, r.value, bind, depth + 1)
        if out:
            return out
    if isinstance(e, ast.IfExp):
        return _pattern_variants(ctx, ss, fi, e.body, env, depth) + _pattern_variants(ctx, ss, fi, e.orelse, env, depth)
    # a plain string handed on: the library compiles it as it is
    return [(ss.variants(fi, fi.module, e, env), False, fi, e)]


def rule_rx1(ctx: Ctx) -> RuleResult:
    rr = RuleResult("RX-1", "both anchors bind the whole user-supplied --dict-keys-regex pattern", floor=1)
    ss = StrSym(ctx)
    cli = ctx.prog.module("json_to_models/cli.py")
    sites = []
    for f in cli.all_funcs:
        for n in walk_no_nested(f.node):
            # the value stored for / passed as the dict_keys_regex option of the generator
            if isinstance(n, ast.Assign) and any("dict_keys_regex" in norm(t) and isinstance(t, ast.Attribute) for t in n.targets):
                v = n.value
                if isinstance(v, ast.IfExp):
                    v = v.body
                if isinstance(v, (ast.ListComp, ast.GeneratorExp)) and len(v.generators) == 1:
                    sites.append((f, v.elt, v.generators[0], n))
                elif isinstance(v, ast.Call) and norm(v.func) in ("list", "tuple") and v.args and isinstance(
                        v.args[0], (ast.GeneratorExp, ast.ListComp)):
                    sites.append((f, v.args[0].elt, v.args[0].generators[0], n))
                else:
                    sites.append((f, None, None, n))
    if not sites:
        raise AnalysisError("RX-1: the CLI no longer stores the dict_keys_regex option (anchor vanished)")
    st = ("the compiled pattern is ^(?:<user pattern>)$ in effect: whatever the user pattern contains "
          "(alternation, its own anchors, escaped $), a key must match it entirely")
    for f, elt, gen, asg in sites:
        if elt is None:
            rr.instances += 1
            rr.ob(f.relpath, f.qualname, norm(asg)[:90], st, VIOLATED,
                  "the option values are not wrapped one by one before they reach the generator", asg.lineno)
            continue
        lv = gen.target.id if isinstance(gen.target, ast.Name) else None
        env = {lv: [[("hole", "USER-PATTERN", (), None)]]} if lv else {}
        for vs, flags, g, node in _pattern_variants(ctx, ss, f, elt, env):
            for v in vs:
                rr.instances += 1
                holes = [a for a in v if a[0] == "hole"]
                if len(holes) != 1 or holes[0][1] != "USER-PATTERN" or holes[0][2]:
                    rr.ob(g.relpath, g.qualname, describe(v), st, VIOLATED,
                          "the user pattern is transformed or mixed with other run-time text before compilation",
                          node.lineno)
                    continue
                ok, why = regex_hole_is_grouped(text_of(v, HOLE))
                rr.ob(g.relpath, g.qualname, describe(v), st, DISCHARGED if ok else VIOLATED, why, node.lineno)
            if flags:
                rr.instances += 1
                rr.ob(g.relpath, g.qualname, norm(node)[:80], "no regex flags alter the anchors", VIOLATED,
                      "flags passed to re.compile (re.MULTILINE would let ^/$ match at line breaks)", node.lineno)
    return rr


def rule_dk(ctx: Ctx) -> RuleResult:
    rr = RuleResult("DK-1..3", "objects become mappings exactly for named fields, regex-matched key sets or empties",
                    floor=5)
    prog = ctx.prog
    det = prog.func(GEN, "MetadataGenerator._detect_type")
    conv = prog.func(GEN, "MetadataGenerator._convert")
    gen = prog.func(GEN, "MetadataGenerator.generate")
    init = prog.func(GEN, "MetadataGenerator.__init__")
    dparams = [p for p in det.params if p != "self"]
    vparam, fparam = dparams[0], (dparams[1] if len(dparams) > 1 else None)
    if fparam is None:
        raise AnalysisError("DK: _detect_type lost its convert_dict parameter")
    # DK-1: who passes the per-field flag
    for f in sorted(prog.all_funcs(), key=lambda x: x.key):
        for n in walk_no_nested(f.node):
            if not isinstance(n, ast.Call):
                continue
            if det not in [t for t in ctx.cg.resolve_call(f, f.module, n) if isinstance(t, FuncInfo)]:
                continue
            rr.instances += 1
            flag = n.args[1] if len(n.args) > 1 else next((k.value for k in n.keywords if k.arg == fparam), None)
            st = ("the dict-keys-fields decision applies to the direct value of the named field only; nested list items "
                  "and mapping values are typed with the default")
            # a constant equal to the parameter's own default says the same as passing nothing
            a_ = det.node.args
            pos = [x.arg for x in a_.posonlyargs + a_.args]
            dflt = None
            if fparam in pos and len(pos) - pos.index(fparam) <= len(a_.defaults):
                dflt = a_.defaults[pos.index(fparam) - (len(pos) - len(a_.defaults))]
            if flag is not None and isinstance(flag, ast.Constant) and isinstance(dflt, ast.Constant) and flag.value is dflt.value:
                flag = None
            if f == det or f.parent == det:
                ok = flag is None
                rr.ob(f.relpath, f.qualname, norm(n), st, DISCHARGED if ok else VIOLATED,
                      "recursive call passes no flag" if ok else
                      f"recursive call forwards `{norm(flag)}`: objects nested below the named field lose their models",
                      n.lineno)
            elif f == conv:
                ok = False
                why = "no flag passed"
                if flag is not None:
                    v = flag
                    if isinstance(v, ast.Name):
                        defs = ctx.defs_reaching(f, v, v.id) or []
                        v = defs[0].value if len(defs) == 1 and isinstance(defs[0], ast.Assign) else v
                    lp = enclosing_loop(f.module, n)
                    key = None
                    if isinstance(lp, ast.For) and isinstance(lp.target, ast.Tuple) and len(lp.target.elts) == 2:
                        key, val = (norm(x) for x in lp.target.elts)
                        if norm(n.args[0]) != val:
                            key = None
                    if isinstance(v, ast.Compare) and len(v.ops) == 1 and isinstance(v.ops[0], ast.NotIn) and \
                            key is not None and norm(v.left) == key and "dict_keys_fields" in norm(v.comparators[0]):
                        ok = True
                    else:
                        why = f"flag is `{norm(v)}`; expected `<key> not in self.dict_keys_fields` for the key whose value is typed"
                rr.ob(f.relpath, f.qualname, norm(n), st, DISCHARGED if ok else VIOLATED,
                      "flag = (key not in dict_keys_fields) for the very key being typed" if ok else why, n.lineno)
            else:
                ok = flag is None
                rr.ob(f.relpath, f.qualname, norm(n), st, DISCHARGED if ok else VIOLATED,
                      "default flag" if ok else "an outside caller overrides the per-field decision", n.lineno)
    # the named-field set holds the option values themselves
    rr.instances += 1
    asg = [n for n in walk_no_nested(init.node) if isinstance(n, ast.Assign) and norm(n.targets[0]) == "self.dict_keys_fields"]
    ok = len(asg) == 1 and norm(asg[0].value) in (
        "set(dict_keys_fields or ())", "set(dict_keys_fields or [])", "frozenset(dict_keys_fields or ())", "set(dict_keys_fields)",
        # the same default spelled as a conditional expression
        "set(dict_keys_fields) if dict_keys_fields else set()", "set(dict_keys_fields) if dict_keys_fields else frozenset()",
        "set() if not dict_keys_fields else set(dict_keys_fields)", "set(dict_keys_fields) if dict_keys_fields is not None else set()",
        "set() if dict_keys_fields is None else set(dict_keys_fields)")
    rr.ob(init.relpath, init.qualname, norm(asg[0]) if asg else "self.dict_keys_fields", "the field-name option is "
          "stored as the set of the given names", DISCHARGED if ok else VIOLATED,
          "set of the names as given" if ok else "names are transformed or not stored", init.node.lineno)
    # DK-3a: one compiled pattern per configured regex (not folded together)
    rr.instances += 1
    asg = [n for n in walk_no_nested(init.node) if isinstance(n, ast.Assign) and norm(n.targets[0]) == "self.dict_keys_regex"]
    ok = False
    why = "assignment not found"
    if len(asg) == 1:
        v = asg[0].value
        if isinstance(v, ast.IfExp):
            v = v.body
        if isinstance(v, ast.ListComp) and len(v.generators) == 1 and not v.generators[0].ifs and \
                norm(v.generators[0].iter) == "dict_keys_regex" and isinstance(v.generators[0].target, ast.Name):
            lv = v.generators[0].target.id
            elt = v.elt
            if isinstance(elt, ast.IfExp):
                elts = [elt.body, elt.orelse]
            else:
                elts = [elt]
            ok = all((isinstance(x, ast.Call) and norm(x.func) == "re.compile" and len(x.args) == 1 and not x.keywords
                      and norm(x.args[0]) == lv) or norm(x) == lv for x in elts)
            why = "" if ok else f"element is `{norm(elt)}`, not re.compile(<that regex>)"
        else:
            why = (f"`{norm(v)[:80]}` does not compile the given regexes one by one: 'all keys match ONE of the "
                   f"patterns' silently becomes 'every key matches SOME pattern'")
    rr.ob(init.relpath, init.qualname, norm(asg[0])[:100] if asg else "self.dict_keys_regex",
          "each configured regex is compiled on its own and kept as a separate pattern", DISCHARGED if ok else VIOLATED,
          "element-wise re.compile over the parameter" if ok else why, init.node.lineno)
    # DK-3b: falsification of the flag inside _detect_type
    falsifiers = [n for n in walk_no_nested(det.node) if isinstance(n, ast.Assign) and norm(n.targets[0]) == fparam]
    for n in falsifiers:
        rr.instances += 1
        st = ("the model/mapping flag is cleared only when ALL keys of the object match one and the same configured "
              "pattern, anchored at the start")
        problems = []
        if not (isinstance(n.value, ast.Constant) and n.value.value is False):
            problems.append(f"assigned `{norm(n.value)}`")
        lp = enclosing_loop(det.module, n)
        if not (isinstance(lp, ast.For) and "dict_keys_regex" in norm(lp.iter) and isinstance(lp.iter, ast.Attribute)
                and isinstance(lp.target, ast.Name)):
            problems.append("not inside `for <pattern> in self.dict_keys_regex`")
        else:
            lv = lp.target.id
            iff = det.module.parents.get(n)
            if not isinstance(iff, ast.If) or n not in iff.body:
                problems.append("not guarded by an if")
            else:
                t = iff.test
                okq = False
                if isinstance(t, ast.Call) and norm(t.func) == "all" and len(t.args) == 1:
                    a = t.args[0]
                    if isinstance(a, ast.Call) and norm(a.func) == "map" and len(a.args) == 2 and \
                            norm(a.args[0]) in (f"{lv}.match", f"{lv}.fullmatch") and \
                            norm(a.args[1]) in (f"{vparam}.keys()", vparam):
                        okq = True
                    if isinstance(a, (ast.GeneratorExp, ast.ListComp)) and len(a.generators) == 1 and not a.generators[0].ifs \
                            and norm(a.generators[0].iter) in (f"{vparam}.keys()", vparam):
                        elt = a.elt
                        # `<pattern>.match(k) is not None` asks the same as the truth value of the match object
                        if isinstance(elt, ast.Compare) and len(elt.ops) == 1 and isinstance(elt.ops[0], ast.IsNot) and \
                                isinstance(elt.comparators[0], ast.Constant) and elt.comparators[0].value is None:
                            elt = elt.left
                        if isinstance(elt, ast.Call) and norm(elt.func) in (f"{lv}.match", f"{lv}.fullmatch") and len(elt.args) == 1 and \
                                norm(elt.args[0]) == norm(a.generators[0].target):
                            okq = True
                if not okq:
                    problems.append(f"guard `{norm(t)[:70]}` is not all(<pattern>.match(k) for every key k of the object)")
        rr.ob(det.relpath, det.qualname, norm(n), st, VIOLATED if problems else DISCHARGED,
              "; ".join(problems) if problems else "all(map(reg.match, value.keys())) inside the loop over patterns",
              n.lineno)
    if fparam and not falsifiers and any(True for _ in [1]):
        # a tree without regex support would be a different program; keep the floor honest
        pass
    # DK-3c: the branch on the flag: true -> model (via _convert), false -> mapping
    for iff in walk_no_nested(det.node):
        if isinstance(iff, ast.If) and norm(iff.test) == fparam:
            rr.instances += 1
            body_calls = [c for s in iff.body for c in ast.walk(s) if isinstance(c, ast.Call)]
            to_model = any(conv in [t for t in ctx.cg.resolve_call(det, det.module, c) if isinstance(t, FuncInfo)]
                           and norm(c.args[0]) == vparam for c in body_calls if c.args)
            else_dd = any(isinstance(c, ast.Call) and norm(c.func) == "DDict" for s in iff.orelse for c in ast.walk(s))
            body_dd = any(norm(c.func) == "DDict" for c in body_calls)
            ok = to_model and else_dd and not body_dd
            rr.ob(det.relpath, det.qualname, f"if {fparam}: ... else: ...",
                  "flag set -> the object itself becomes a model; flag cleared -> Dict[str, T] and no model for it",
                  DISCHARGED if ok else VIOLATED,
                  "true-branch returns self._convert(value); else-branch builds DDict" if ok else
                  "branches do not map flag->model / not flag->mapping", iff.lineno)
    # empty object -> mapping, decided before anything else in the dict branch
    rr.instances += 1
    empties = [n for n in walk_no_nested(det.node) if isinstance(n, ast.If) and norm(n.test) == f"not {vparam}"
               and any(isinstance(c, ast.Call) and norm(c.func) == "DDict" for s in n.body for c in ast.walk(s))]
    rr.ob(det.relpath, det.qualname, f"if not {vparam}: return DDict(...)", "an empty object is a mapping",
          DISCHARGED if empties else VIOLATED, "emptiness test returns DDict" if empties else "no such branch",
          empties[0].lineno if empties else det.node.lineno)
    # DK-2: top-level samples go straight to _convert
    rr.instances += 1
    ok = False
    for n in walk_no_nested(gen.node):
        if isinstance(n, (ast.ListComp, ast.GeneratorExp)) and len(n.generators) == 1 and isinstance(n.elt, ast.Call):
            vararg = gen.node.args.vararg.arg if gen.node.args.vararg else None
            if conv in [t for t in ctx.cg.resolve_call(gen, gen.module, n.elt) if isinstance(t, FuncInfo)] and \
                    norm(n.generators[0].iter) in (vararg, f"list({vararg})", f"tuple({vararg})") and not n.generators[0].ifs and \
                    norm(n.elt.args[0]) == norm(n.generators[0].target):
                ok = True
    rr.ob(gen.relpath, gen.qualname, "[self._convert(data) for data in data_variants]",
          "every top-level sample becomes a model (never subject to the dict decision)", DISCHARGED if ok else VIOLATED,
          "each sample is passed to _convert directly" if ok else "samples are routed differently", gen.node.lineno)
    return rr
