"""PERM-1 (C07, with clauses of C01 and C02): the field-level inference `optimize_type(merge_field_sets(field sets))` is
evaluated from its source (sa.absint) for every list of up to three samples of one field, each sample either lacking the
field or holding one of about twenty raw types (what `_detect_type` can return for a value, as kind-level tokens).

Decided for every such list:
  (a) C07: every permutation of the samples gives the same set of outcomes, and so does repeating a sample;
  (b) C01: the field is Optional (or typed null) whenever a sample lacks it or holds null, and the type found covers the raw
      type of every sample (int by int or float, a literal by Literal or str, a pseudo-type by a pseudo-type or str, ...);
  (c) C02: it is Optional only then, and nothing appears in it that no sample brought (int, float, bool, a model, a list,
      a mapping, Any).
The summaries and the evaluator are those of NF-4 (§10.5 of DESIGN.md); `merge_field_sets` itself is evaluated here.
"""
from __future__ import annotations

import itertools
import os
from typing import Dict, List, Optional, Set, Tuple

from ..absint import AnalysisError, Cls, FuncVal, ModelDict, Node, clone, key, show
from ..ctx import Ctx
from ..report import DISCHARGED, VIOLATED, RuleResult
from .nf4 import GEN, World, _literal_sets

ABSENT_I = 0                 # (index of ABSENT in the universes)
ABSENT = "<absent>"          # the sample is an object without the field (it has another one)
EMPTY = "<empty object>"     # the sample is the empty object


def raw_universe(w: World) -> List[object]:
    """What _detect_type can return for a value (first round: generate()), plus the two ways of lacking the field."""
    def one(cname, *a):
        r = w.make(cname, *a)
        if len(r) != 1 or r[0][0] != "ok":
            raise AnalysisError(f"PERM-1: building {cname} has {len(r)} outcomes / raises")
        return r[0][1]
    lst = lambda x: one("DList", x)
    dct = lambda x: one("DDict", x)
    uni = lambda *xs: one("DUnion", *xs)
    sla, slb = w.sl("a"), w.sl("b")
    slo = Node(w.c["StringLiteral"].info, {"_literals": frozenset(), "_overflow": True})
    # ("M1/b": an object with the field names of M1 and other value types)
    return [ABSENT, EMPTY, w.INT, w.FLOAT, w.BOOL, w.NULL, sla, slb, slo, w.PS1, w.PS2, ModelDict("M1"), ModelDict("M2"),
            lst(w.UNKNOWN), lst(w.INT), lst(sla), lst(w.NULL), lst(uni(w.INT, w.NULL)), lst(ModelDict("M1")),
            lst(uni(w.INT, ModelDict("M1"))), lst(uni(w.INT, ModelDict("M1/b"))), dct(w.UNKNOWN), dct(w.INT)]


def optimised_universe(w: World) -> List[object]:
    """Field types of already simplified models (second round: merge_models merges their field sets)."""
    def one(cname, *a):
        r = w.make(cname, *a)
        if len(r) != 1 or r[0][0] != "ok":
            raise AnalysisError(f"PERM-1: building {cname} has {len(r)} outcomes / raises")
        return r[0][1]
    lst = lambda x: one("DList", x)
    opt = lambda x: one("DOptional", x)
    uni = lambda *xs: one("DUnion", *xs)
    sla, slb, m1 = w.sl("a"), w.sl("b"), ModelDict("M1")
    return [ABSENT, w.INT, w.FLOAT, opt(w.INT), opt(w.FLOAT), sla, opt(slb), w.PS1, opt(w.PS2), w.STR, m1, opt(ModelDict("M2")),
            lst(w.INT), lst(opt(w.INT)), opt(lst(w.FLOAT)), uni(w.INT, sla), opt(uni(w.FLOAT, w.PS1)), w.ptr("P"), opt(w.ptr("Q"))]


def pairs_universe(w: World) -> List[object]:
    """Samples of simplified models with TWO varying fields (what one field does must not depend on its neighbour)."""
    def one(cname, *a):
        r = w.make(cname, *a)
        return r[0][1]
    opt = lambda x: one("DOptional", x)
    vals = [ABSENT, w.INT, opt(w.INT), w.FLOAT, w.sl("a"), opt(w.sl("b"))]
    return [{"f": a, "h": b} for a in vals for b in vals]


def pipeline(w: World, seq) -> List[Tuple[str, object]]:
    f_merge = w.ctx.prog.func(GEN, "MetadataGenerator.merge_field_sets")
    known = set()
    for r in seq:
        if isinstance(r, dict):
            for v in r.values():
                if v is not ABSENT:
                    known |= _literal_sets(v)
        elif r is not ABSENT and r is not EMPTY:
            known |= _literal_sets(r)
    w.ev.state["known_ok"] = known

    def run():
        sets = []
        for r in seq:
            d = {"g": w.INT}
            if r is EMPTY:
                d = {}
            elif isinstance(r, dict):
                # a sample with two fields that vary (f before h in key order)
                d = {k: (v if isinstance(v, (Cls, ModelDict)) else clone(v)) for k, v in r.items() if v is not ABSENT}
                d["g"] = w.INT
            elif r is not ABSENT:
                d = {"f": r if isinstance(r, (Cls, ModelDict)) else clone(r), "g": w.INT}
            sets.append(d)
        merged = w.ev.call_func(FuncVal(f_merge, w.gen), [sets], {}, "PERM-1")
        return w.ev.call_func(FuncVal(w.f_opt, w.gen), [merged], {}, "PERM-1")
    return w.outcomes(run)


def _unwrap(t) -> Tuple[bool, List[object]]:
    """(optional?, members) of a field type."""
    opt = False
    if isinstance(t, Node) and t.info.name == "DOptional":
        opt, t = True, t.attrs.get("_type")
    if isinstance(t, Node) and t.info.name == "DUnion":
        return opt, list(t.attrs.get("_types", []))
    return opt, [t]


def _kind(t) -> str:
    if isinstance(t, Cls):
        return "PS" if t.pseudo else t.name.upper()
    if isinstance(t, ModelDict) or isinstance(t, dict):
        return "MODEL"
    if isinstance(t, Node):
        n = t.info.name
        return {"DList": "LIST", "DDict": "DICT", "NoneType": "NULL", "UnknownType": "ANY", "DOptional": "OPT", "DUnion": "UNION",
                "ModelPtr": "PTR"}.get(n, "SL" if n == "StringLiteral" and not t.attrs.get("_overflow") else
                                       ("SLO" if n == "StringLiteral" else n))
    return type(t).__name__


COVERED_BY = {"INT": {"INT", "FLOAT"}, "FLOAT": {"FLOAT"}, "BOOL": {"BOOL"}, "SL": {"SL", "STR"}, "SLO": {"STR"}, "PS": {"PS", "STR"},
              "STR": {"STR"}, "MODEL": {"MODEL"}, "PTR": {"PTR"}, "LIST": {"LIST"}, "DICT": {"DICT"}}
BROUGHT_BY = {"INT": {"INT"}, "FLOAT": {"FLOAT"}, "BOOL": {"BOOL"}, "MODEL": {"MODEL"}, "PTR": {"PTR"}, "LIST": {"LIST"}, "DICT": {"DICT"},
              "SL": {"SL"}, "PS": {"PS"}, "STR": {"STR", "SL", "SLO", "PS"}}


def _sample_kinds(r) -> Set[str]:
    if r is ABSENT or r is EMPTY:
        return {"ABSENT"}
    opt, members = _unwrap(r)
    ks = {_kind(m) for m in members}
    if opt:
        ks.add("NULL")
    return ks


def field_problems(seq, result, field: str = "f") -> List[str]:
    out = []
    kinds: Set[str] = set()
    for r in seq:
        kinds |= _sample_kinds(r.get(field, ABSENT) if isinstance(r, dict) else (r if field == "f" else ABSENT))
    if not isinstance(result, dict):
        return [f"the pipeline returned {show(result)}, not a field set"]
    fk = next((k for k in result if k == field), None)
    typed = kinds - {"ABSENT"}
    if fk is None:
        if typed:
            out.append("the field is dropped although samples hold it")
        return out
    t = result[fk]
    opt, members = _unwrap(t)
    mk = [_kind(m) for m in members]
    null_like = opt or mk == ["NULL"]
    need_opt = "ABSENT" in kinds or "NULL" in kinds
    if need_opt and not null_like:
        out.append("a sample lacks the field (or holds null) and the field is not Optional")
    if not need_opt and null_like:
        out.append("the field is Optional although every sample holds a value")
    for k in sorted(kinds):
        if k in COVERED_BY and not (COVERED_BY[k] & set(mk)):
            out.append(f"a sample of kind {k} is not covered by the type found")
    for k in sorted(set(mk)):
        if k in BROUGHT_BY and not (BROUGHT_BY[k] & kinds):
            out.append(f"{k} appears in the type although no sample brought it")
        if k == "ANY" and kinds - {"ABSENT", "NULL"}:
            out.append("Any appears next to samples that hold a value")
    return out


_SHARED: Dict[str, object] = {}


def _check_multisets(w: World, universe: List[object], combos) -> Tuple[Dict[str, Tuple[str, int]], Dict[str, int]]:
    problems: Dict[str, Tuple[str, int]] = {}
    stats = {"lists": 0, "evaluations": 0}
    cache: Dict[object, object] = {}

    def note(kind, wit):
        cur = problems.get(kind)
        if cur is None or len(wit) < len(cur[0]):
            problems[kind] = (wit, (cur[1] if cur else 0) + 1)
        else:
            problems[kind] = (cur[0], cur[1] + 1)

    def outcomes_of(idx: Tuple[int, ...]):
        if idx not in cache:
            stats["evaluations"] += 1
            res = pipeline(w, [universe[i] for i in idx])
            keys = set()
            vals = []
            for tag, r in res:
                if tag == "raise":
                    keys.add(("raise", r.etype, r.where))
                else:
                    keys.add(key(r))
                    vals.append(r)
            cache[idx] = (frozenset(keys), vals, res)
        return cache[idx]

    def label(idx):
        def one(x):
            if isinstance(x, dict):
                return "{" + ", ".join(f"{k}: {show(v) if v is not ABSENT else '-'}" for k, v in x.items()) + "}"
            return show(x) if x not in (ABSENT, EMPTY) else ("-" if x is ABSENT else "{}")
        return "[" + ", ".join(one(universe[i]) for i in idx) + "]"

    for combo in combos:
        stats["lists"] += 1
        base_keys, vals, res = outcomes_of(combo)
        for tag, r in res:
            if tag == "raise":
                note(f"the inference raises {r.etype}", f"samples {label(combo)} ({r.where})")
        seq = [universe[i] for i in combo]
        fields = ["f", "h"] if any(isinstance(x, dict) for x in seq) else ["f"]
        for r in vals:
            for fld in fields:
                for p in field_problems(seq, r, fld):
                    note(p, f"samples {label(combo)} -> {fld}: {show(r.get(fld)) if isinstance(r, dict) else show(r)}")
        for perm in set(itertools.permutations(combo)):
            if perm == combo:
                continue
            k2, _, _ = outcomes_of(perm)
            if k2 != base_keys:
                a = sorted(show(x[1].get("f")) if isinstance(x[1], dict) else str(x[1]) for x in res if x[0] == "ok")
                b = sorted(show(x[1].get("f")) if isinstance(x[1], dict) else str(x[1]) for x in cache[perm][2] if x[0] == "ok")
                note("the order of the samples changes what is inferred", f"{label(combo)} -> {a}; {label(perm)} -> {b}")
        if len(combo) <= 2:
            for i in set(combo):
                for pos in range(len(combo) + 1):
                    rep = combo[:pos] + (i,) + combo[pos:]
                    k3, _, _ = outcomes_of(rep)
                    if k3 != base_keys:
                        a = sorted(show(x[1].get("f")) if isinstance(x[1], dict) else str(x[1]) for x in res if x[0] == "ok")
                        b = sorted(show(x[1].get("f")) if isinstance(x[1], dict) else str(x[1]) for x in cache[rep][2] if x[0] == "ok")
                        note("repeating a sample changes what is inferred", f"{label(combo)} -> {a}; {label(rep)} -> {b}")
    return problems, stats


def _worker(args):
    which, part, parts = args
    w: World = _SHARED["world"]
    universe = _SHARED["universe"][which]
    combos = _SHARED["combos"][which][part::parts]
    w.ev.functions_evaluated.clear()
    pr, st = _check_multisets(w, universe, combos)
    return which, pr, st, dict(w.ev.functions_evaluated)


def rule_perm1(ctx: Ctx) -> RuleResult:
    from ..rulecache import cached
    return cached(ctx, "rule_perm1", lambda: _rule_perm1(ctx))


def _rule_perm1(ctx: Ctx) -> RuleResult:
    rr = RuleResult("PERM-1", "what is inferred for a field does not depend on the order or repetition of the samples, covers every "
                    "sample and holds nothing no sample brought", floor=3)
    w = World(ctx)
    universes = {"first round (raw types of the values)": raw_universe(w),
                 "second round (field types of simplified models that are merged)": optimised_universe(w),
                 "second round, two varying fields (lists of up to two samples)": pairs_universe(w)}
    # lists of one or two samples over the whole universe; lists of three over its core (the thorough tier: the whole universe)
    # first round: absent, {}, int, float, null, two literals, a pseudo-type, a model, List[Any], List[int], Dict[Any]
    # second round: absent, int, float, Optional[int], Optional[float], Literal, Optional[Literal], pseudo-type, Optional[pseudo-type],
    #               str, List[int], List[Optional[int]], Union[int, Literal]
    core = {"first": {ABSENT_I, 1, 2, 3, 5, 6, 7, 9, 11, 13, 14, 21}, "second": {0, 1, 2, 3, 4, 5, 6, 7, 8, 9, 12, 13, 15}}
    combos = {}
    for k, u in universes.items():
        cs = [c for r in (1, 2) for c in itertools.combinations_with_replacement(range(len(u)), r)]
        if "two varying" not in k:
            idx = range(len(u)) if ctx.tier == "thorough" else sorted(i for i in core[k.split()[0]] if i < len(u))
            cs += list(itertools.combinations_with_replacement(idx, 3))
        combos[k] = cs
    _SHARED["world"], _SHARED["universe"], _SHARED["combos"] = w, universes, combos
    ncpu = min(16, os.cpu_count() or 1)
    parts = ncpu * 2 if ncpu > 1 else 1
    jobs = [(k, i, parts) for k in universes for i in range(parts)]
    if ncpu > 1:
        import multiprocessing as mp
        with mp.get_context("fork").Pool(ncpu) as pool:
            results = pool.map(_worker, jobs, chunksize=1)
    else:
        results = [_worker(j) for j in jobs]
    problems: Dict[str, Tuple[str, int]] = {}
    stats = {"lists": 0, "evaluations": 0}
    evaluated: Dict[str, int] = {}
    for which, pr, st, fe in results:
        for k, (wit, c) in pr.items():
            k = k if which.startswith("first") else k + (" (merging simplified models)" if "two varying" not in which else
                                                        " (merging simplified models, two fields)")
            cur = problems.get(k)
            if cur is None or len(wit) < len(cur[0]):
                problems[k] = (wit, c + (cur[1] if cur else 0))
            else:
                problems[k] = (cur[0], cur[1] + c)
        for k in stats:
            stats[k] += st[k]
        for k, v in fe.items():
            evaluated[k] = evaluated.get(k, 0) + v
    f_merge = ctx.prog.func(GEN, "MetadataGenerator.merge_field_sets")
    if f_merge.key not in evaluated or w.f_opt.key not in evaluated:
        raise AnalysisError("PERM-1: merge_field_sets / optimize_type were not evaluated")
    if stats["lists"] < 1500:
        raise AnalysisError(f"PERM-1: only {stats['lists']} sample lists")
    rr.analysed = sorted(evaluated)
    rr.notes.append("; ".join(f"{k}: {len(u)} entries" for k, u in universes.items()) + f": {stats['lists']} lists of up to three samples "
                    f"(with repetition), {stats['evaluations']} evaluations of merge_field_sets + optimize_type including every "
                    f"permutation and repetition")
    st = ("for every list of up to three samples of a field (each lacking it or holding one of the types of the universe), the type "
          "inferred is the same for every order and for repeated samples; it is Optional exactly when a sample lacks the field or "
          "holds null; it covers every sample and contains nothing that no sample brought")
    rr.instances += 3
    if not problems:
        rr.ob(f_merge.relpath, f_merge.qualname, "order and repetition of samples", st, DISCHARGED,
              f"{stats['lists']} lists, every permutation and repetition gives the same outcomes", f_merge.node.lineno)
        rr.ob(f_merge.relpath, f_merge.qualname, "optionality", st, DISCHARGED, "Optional exactly when a sample lacks the field or holds null",
              f_merge.node.lineno)
        rr.ob(f_merge.relpath, f_merge.qualname, "coverage and tightness", st, DISCHARGED, "every sample covered, nothing foreign",
              f_merge.node.lineno)
    for kind, (wit, c) in sorted(problems.items()):
        rr.ob(f_merge.relpath, f_merge.qualname, kind, st, VIOLATED, f"{c} of {stats['lists']} lists, smallest: {wit}", f_merge.node.lineno,
              witness=[wit])
    return rr
