"""State rules: TLS-1, CTX-1..3, GLOB-1, CACHE-1, CACHE-2 (properties C14, C15, C11, C04)."""
from __future__ import annotations

import ast
from typing import Dict, List, Optional, Set, Tuple

from ..cfg import build_cfg
from ..ctx import Ctx
from ..effects import local_names, param_names
from ..model import (AnalysisError, ClassInfo, ConstRef, External, FuncInfo, attr_chain, norm, walk_no_nested)
from ..report import ALLOWED, DISCHARGED, VIOLATED, RuleResult


# ---------------------------------------------------------------------------------------------------------------
# thread-local inventory
# ---------------------------------------------------------------------------------------------------------------
class TlsObject:
    def __init__(self, module, owner: Optional[ClassInfo], name: str, inst_cls: Optional[ClassInfo], node):
        self.module, self.owner, self.name, self.inst_cls, self.node = module, owner, name, inst_cls, node

    def __repr__(self):
        return f"{self.owner.qualname + '.' if self.owner else ''}{self.name}"


def find_tls_objects(ctx: Ctx) -> List[TlsObject]:
    prog = ctx.prog
    tls_classes = [c for c in prog.all_classes()
                   if any(b in ("threading.local", "local", "_thread._local") or b.endswith(".local")
                          for b in prog.external_bases(c))]
    out = []
    for m in prog.pkg_modules():
        for n in ast.walk(m.tree):
            if isinstance(n, (ast.Assign, ast.AnnAssign)) and isinstance(n.value, ast.Call):
                r = prog.resolve_class_expr(m, n.value.func, m.class_of_node(n))
                inst = None
                if isinstance(r, External) and r.dotted in ("threading.local", "_thread._local"):
                    pass
                elif isinstance(r, ClassInfo) and r in tls_classes:
                    inst = r
                else:
                    continue
                tg = n.targets if isinstance(n, ast.Assign) else [n.target]
                for t in tg:
                    if isinstance(t, ast.Name):
                        owner = m.class_of_node(n) if m.func_of_node(n) is None else None
                        out.append(TlsObject(m, owner, t.id, inst, n))
                    elif isinstance(t, ast.Attribute):
                        out.append(TlsObject(m, m.class_of_node(n), t.attr, inst, n))
    return out


def _denotes_tls(ctx: Ctx, m, v: ast.AST, tls: TlsObject, at: ast.AST) -> bool:
    """Does expression ``v`` (evaluated at node ``at``) denote the thread-local object itself?"""
    prog = ctx.prog
    if isinstance(v, ast.Attribute) and v.attr == tls.name:
        base = v.value
        ch = attr_chain(base)
        encl = m.class_of_node(at)
        if ch is not None:
            if ch[-1] in ("self", "cls") and encl is not None and tls.owner is not None and tls.owner in prog.mro(encl):
                return True
            if tls.owner is not None and ch[-1] == tls.owner.name:
                return True
            r = prog.resolve_class_expr(m, base, encl)
            return isinstance(r, ClassInfo) and tls.owner is not None and tls.owner in prog.mro(r)
        return False
    if isinstance(v, ast.Name):
        fi = m.func_of_node(at)
        if v.id == tls.name:
            if tls.owner is None and (fi is None or v.id not in local_names(fi.node)):
                r = prog.resolve_global(m, v.id)
                return isinstance(r, ConstRef) and r.module is tls.module
            if tls.owner is not None and fi is None and m.class_of_node(at) is tls.owner:
                return True  # class-body statement `data.context = None`
        # local alias:  data = cls.Context.data
        if fi is not None and v.id in local_names(fi.node):
            for n in walk_no_nested(fi.node):
                if isinstance(n, ast.Assign) and len(n.targets) == 1 and isinstance(n.targets[0], ast.Name) and \
                        n.targets[0].id == v.id and not isinstance(n.value, ast.Name):
                    if _denotes_tls(ctx, m, n.value, tls, n):
                        return True
    return False


def _tls_attr_accesses(ctx: Ctx, tls: TlsObject):
    """Yield (FuncInfo|None, Attribute node) for every ``<tls object>.<attr>`` access in the package."""
    cache = ctx.__dict__.setdefault("_tls_acc_cache", {})
    k = id(tls.node), tls.name
    if k not in cache:
        out = []
        for m in ctx.prog.pkg_modules():
            for n in ast.walk(m.tree):
                if isinstance(n, ast.Attribute) and _denotes_tls(ctx, m, n.value, tls, n):
                    out.append((m.func_of_node(n), n))
        cache[k] = out
    return cache[k]


def rule_tls1(ctx: Ctx) -> RuleResult:
    rr = RuleResult("TLS-1", "every thread-local attribute read is safe in a thread that never wrote it", floor=2)
    tls_objs = find_tls_objects(ctx)
    if not tls_objs:
        # a subclass of threading.local that is bound somewhere WITHOUT being instantiated: its class attributes are one set of
        # values for every thread
        hits = 0
        for c in ctx.prog.all_classes():
            if not any(norm(b).split(".")[-1] == "local" for b in c.node.bases):
                continue
            for m in ctx.prog.pkg_modules():
                for n in ast.walk(m.tree):
                    if isinstance(n, (ast.Assign, ast.AnnAssign)) and n.value is not None and isinstance(n.value, ast.Name) and n.value.id == c.name:
                        hits += 1
                        rr.instances += 2
                        rr.ob(m.relpath, m.qual_of_node(n), norm(n)[:70], "per-thread state lives in an INSTANCE of a threading.local subclass",
                              VIOLATED, f"`{norm(n)[:50]}` binds the class {c.name} itself, not an instance: attributes set through it are class "
                              f"attributes, common to all threads - one generation's reference context is seen by every other thread", n.lineno)
        if hits:
            return rr
        raise AnalysisError("TLS-1: no threading.local object found (anchor vanished)")
    for tls in tls_objs:
        rr.analysed.append(f"thread-local object {tls!r} ({tls.module.relpath}:{tls.node.lineno})")
        # attributes defined for every thread: class-level names / __init__ assignments of a local subclass
        everywhere: Set[str] = set()
        if tls.inst_cls is not None:
            for k in ctx.prog.mro(tls.inst_cls):
                everywhere |= set(k.assigns) | {a for a in k.annots if a in k.assigns}
                for f in k.methods.get("__init__", []):
                    for n in walk_no_nested(f.node):
                        if isinstance(n, (ast.Assign, ast.AnnAssign)):
                            for t in (n.targets if isinstance(n, ast.Assign) else [n.target]):
                                if isinstance(t, ast.Attribute) and isinstance(t.value, ast.Name) and t.value.id == "self":
                                    everywhere.add(t.attr)
        slotted: Set[str] = set()
        if tls.inst_cls is not None:
            for k in ctx.prog.mro(tls.inst_cls):
                sl = k.assigns.get("__slots__")
                if sl is not None:
                    slotted |= {e.value for e in ast.walk(sl) if isinstance(e, ast.Constant) and isinstance(e.value, str)}
        everywhere -= slotted
        for fi, acc in _tls_attr_accesses(ctx, tls):
            if not isinstance(acc.ctx, ast.Load):
                continue
            rr.instances += 1
            where = fi.qualname if fi else tls.module.qual_of_node(acc)
            if acc.attr in slotted:
                rr.ob(tls.module.relpath if fi is None else fi.relpath, where, norm(acc),
                      f"`{acc.attr}` is per-thread state", VIOLATED,
                      f"`{acc.attr}` is declared in __slots__ of the threading.local subclass {tls.inst_cls.qualname}: "
                      f"slot descriptors live on the shared object, so the value is common to all threads", acc.lineno)
                continue
            rel = tls.module.relpath if fi is None else fi.relpath
            st = f"read of thread-local attribute `{acc.attr}` must not depend on a write made by another thread"
            if acc.attr in everywhere:
                rr.ob(rel, where, norm(acc), st, DISCHARGED,
                      f"`{acc.attr}` is defined by the threading.local subclass {tls.inst_cls.qualname} (class level or "
                      f"__init__), so it exists in every thread", acc.lineno)
                continue
            if fi is None:
                rr.ob(rel, where, norm(acc), st, VIOLATED, "read at import time outside any function", acc.lineno)
                continue
            # a write to the same attribute that dominates the read in the same function
            cfg = ctx.cfg(fi)
            dom = cfg.dominators()
            try:
                rn = cfg.node_containing(acc, fi.module.parents)
            except AnalysisError:
                rn = None
            ok = False
            if rn is not None:
                for fi2, w in _tls_attr_accesses(ctx, tls):
                    if fi2 is fi and isinstance(w.ctx, ast.Store) and w.attr == acc.attr:
                        wn = cfg.node_containing(w, fi.module.parents)
                        if wn != rn and wn in dom.get(rn, ()):
                            ok = True
            if ok:
                rr.ob(rel, where, norm(acc), st, DISCHARGED, "a write in the same function dominates the read", acc.lineno)
            else:
                rr.ob(rel, where, norm(acc), st, VIOLATED,
                      f"`{acc.attr}` is only assigned where the importing thread runs (class body / module level) or "
                      f"in another function; a fresh thread sees no such attribute (AttributeError)", acc.lineno)
        # getattr(tls, 'x', default) reads are safe by construction - count them
    # inventory of other concurrency primitives
    prims = []
    for m in ctx.prog.pkg_modules():
        for n in ast.walk(m.tree):
            if isinstance(n, ast.Call):
                t = norm(n.func)
                if any(t.startswith(p) for p in ("threading.", "multiprocessing.", "signal.", "asyncio.",
                                                 "concurrent.")) and t not in ("threading.local",):
                    prims.append(f"{m.relpath}:{n.lineno} {t}")
    rr.notes.append(f"other concurrency primitives in the package: {prims or 'none'}")
    return rr


# ---------------------------------------------------------------------------------------------------------------
# CTX-1..3
# ---------------------------------------------------------------------------------------------------------------
def _context_classes(ctx: Ctx, tls_objs) -> List[ClassInfo]:
    out = []
    for c in ctx.prog.all_classes():
        if "__enter__" in c.methods and "__exit__" in c.methods:
            out.append(c)
    return out



def _generator_cms(ctx: Ctx, tls_objs) -> List[FuncInfo]:
    """Functions decorated with contextlib.contextmanager that write a thread-local attribute."""
    out = []
    for f in ctx.prog.all_funcs():
        if not any(d.split(".")[-1] in ("contextmanager", "asynccontextmanager") for d in f.decorators):
            continue
        for tls in tls_objs:
            if any(fi is f and isinstance(acc.ctx, ast.Store) for fi, acc in _tls_attr_accesses(ctx, tls)):
                out.append(f)
                break
    return out


def _check_generator_cm(ctx: Ctx, rr: RuleResult, f: FuncInfo, tls_objs):
    mod = f.module
    yields = [n for n in walk_no_nested(f.node) if isinstance(n, (ast.Yield, ast.YieldFrom))]
    for tls in tls_objs:
        writes = [acc for fi, acc in _tls_attr_accesses(ctx, tls) if fi is f and isinstance(acc.ctx, ast.Store)]
        if not writes or not yields:
            continue
        y = yields[0]
        before = [w for w in writes if w.lineno <= y.lineno]
        after = [w for w in writes if w.lineno > y.lineno]
        rr.instances += 1
        # previous value saved in a local before/at the overwrite
        saved = None
        for n in walk_no_nested(f.node):
            if isinstance(n, ast.Assign) and n.lineno <= y.lineno:
                tg = n.targets[0]
                tgs = tg.elts if isinstance(tg, ast.Tuple) else [tg]
                vals = n.value.elts if isinstance(n.value, ast.Tuple) and isinstance(tg, ast.Tuple) else [n.value]
                for t, v in zip(tgs, vals):
                    if isinstance(t, ast.Name) and isinstance(v, ast.Attribute) and any(
                            v is acc for _, acc in _tls_attr_accesses(ctx, tls)):
                        saved = t.id
        rr.ob(f.relpath, f.qualname, norm(before[0]) if before else "overwrite", "the previous context is saved "
              "before it is overwritten", DISCHARGED if saved and before else VIOLATED,
              f"saved in local `{saved}`" if saved else "no local holds the previous value", f.node.lineno)
        rr.instances += 1
        ok = False
        why = "no assignment restores the saved value after the yield"
        for w in after:
            st = mod.parents.get(w)
            while st is not None and not isinstance(st, ast.stmt):
                st = mod.parents.get(st)
            restores_saved = isinstance(st, ast.Assign) and saved and norm(st.value) == saved
            in_finally = False
            p = mod.parents.get(st)
            while p is not None and p is not f.node:
                if isinstance(p, ast.Try) and any(st is x or any(st is z for z in ast.walk(x)) for x in p.finalbody) \
                        and any(y is z for b in p.body for z in ast.walk(b)):
                    in_finally = True
                p = mod.parents.get(p)
            if restores_saved and in_finally:
                ok = True
            elif restores_saved:
                why = ("the restoring assignment follows a bare `yield`: when the with-body raises, the generator is "
                       "thrown into at the yield and the restore is skipped (needs try/finally)")
        rr.ob(f.relpath, f.qualname, "restore after yield", "the saved context is assigned back on every exit of the "
              "with-body, normal or exceptional", DISCHARGED if ok else VIOLATED,
              "restore sits in the finally of a try around the yield" if ok else why, y.lineno)


def rule_ctx1(ctx: Ctx) -> RuleResult:
    rr = RuleResult("CTX-1", "the reference context is saved on enter and restored on every exit", floor=3)
    tls_objs = find_tls_objects(ctx)
    cms = _context_classes(ctx, tls_objs)
    gcms = _generator_cms(ctx, tls_objs)
    if not cms and not gcms:
        raise AnalysisError("CTX-1: no context manager for the thread-local context found")
    for g in gcms:
        rr.analysed.append(g.key + " (generator-based)")
        _check_generator_cm(ctx, rr, g, tls_objs)
    gnames = {g.qualname for g in gcms}
    for tls in tls_objs:
        writers: Dict[str, List[ast.Attribute]] = {}
        for fi, acc in _tls_attr_accesses(ctx, tls):
            if isinstance(acc.ctx, (ast.Store, ast.Del)):
                q = fi.qualname if fi else tls.module.qual_of_node(acc)
                writers.setdefault(q, []).append(acc)
        for q, accs in sorted(writers.items()):
            rr.instances += 1
            allowed_fn = q in gnames or q.endswith(".__enter__") or q.endswith(".__exit__") or q.endswith(".<body>") or q == "<module>" \
                or (tls.inst_cls is not None and q.startswith(tls.inst_cls.qualname + "."))
            rr.ob(tls.module.relpath, q, norm(accs[0]),
                  "the thread-local context is written only by the context manager's __enter__/__exit__ "
                  "(or its own initialiser)", DISCHARGED if allowed_fn else VIOLATED,
                  "writer is the context manager protocol" if allowed_fn else
                  "a function outside the enter/exit protocol overwrites the context: it is not restored afterwards",
                  accs[0].lineno)
    for c in cms:
        enter = c.methods["__enter__"][0]
        exit_ = c.methods["__exit__"][0]
        rr.analysed += [enter.key, exit_.key]
        # which tls attribute does enter overwrite, and where is the old value saved?
        tls_writes = []
        for tls in tls_objs:
            for fi, acc in _tls_attr_accesses(ctx, tls):
                if fi is enter and isinstance(acc.ctx, ast.Store):
                    tls_writes.append((tls, acc))
        if not tls_writes:
            continue  # a context manager unrelated to the thread-local
        cfg = ctx.cfg(enter)
        dom = cfg.dominators()
        for tls, w in tls_writes:
            rr.instances += 1
            wn = cfg.node_containing(w, enter.module.parents)
            saved_attr = None
            for n in walk_no_nested(enter.node):
                if isinstance(n, ast.Assign) and len(n.targets) == 1 and isinstance(n.targets[0], ast.Attribute) \
                        and isinstance(n.targets[0].value, ast.Name) and n.targets[0].value.id == "self":
                    reads = [a for _, a in _tls_attr_accesses(ctx, tls) if any(a is x for x in ast.walk(n.value))
                             and a.attr == w.attr]
                    if reads and norm(n.value) == norm(reads[0]):
                        sn = cfg.stmt_node(n)
                        if sn in dom.get(wn, ()) and sn != wn:
                            saved_attr = n.targets[0].attr
            rr.ob(enter.relpath, enter.qualname, norm(w),
                  "__enter__ stores the previous context before overwriting it",
                  DISCHARGED if saved_attr else VIOLATED,
                  f"previous value saved in self.{saved_attr} by a statement dominating the overwrite" if saved_attr else
                  "no dominating statement saves the previous value", w.lineno)
            # exit restores on all paths
            xcfg = ctx.cfg(exit_)
            pdom = xcfg.postdominators()
            restores = []
            for fi, acc in _tls_attr_accesses(ctx, tls):
                if fi is exit_ and isinstance(acc.ctx, ast.Store) and acc.attr == w.attr:
                    st = exit_.module.parents.get(acc)
                    if isinstance(st, ast.Assign) and saved_attr and norm(st.value) == f"self.{saved_attr}":
                        restores.append(st)
            rr.instances += 1
            ok = any(xcfg.stmt_node(st) in pdom[xcfg.entry] for st in restores)
            rr.ob(exit_.relpath, exit_.qualname, f"{norm(w)} = self.{saved_attr}",
                  "__exit__ assigns the saved context back on every path, whatever exc_type is",
                  DISCHARGED if ok else VIOLATED,
                  "a restoring assignment post-dominates the entry of __exit__" if ok else
                  ("restoring assignment exists but is conditional (some path skips it)" if restores else
                   "no assignment of the saved value back to the thread-local"), exit_.node.lineno)
            # exit must not swallow exceptions
            rr.instances += 1
            bad = [n for n in walk_no_nested(exit_.node) if isinstance(n, ast.Return) and n.value is not None and not (
                isinstance(n.value, ast.Constant) and not n.value.value)]
            rr.ob(exit_.relpath, exit_.qualname, "return value of __exit__",
                  "__exit__ does not return a truthy value (which would swallow the exception of a failed run)",
                  VIOLATED if bad else DISCHARGED,
                  f"returns `{norm(bad[0].value)}`" if bad else "falls off the end / returns a falsy constant",
                  bad[0].lineno if bad else exit_.node.lineno)
    return rr


def _factories(ctx: Ctx, cms: List[ClassInfo]) -> Tuple[Set, Set[FuncInfo]]:
    """Functions that return a fresh context manager instance (inject -> Context(...))."""
    fac: Set[FuncInfo] = set(_generator_cms(ctx, find_tls_objects(ctx)))
    changed = True
    while changed:
        changed = False
        for f in ctx.prog.all_funcs():
            if f in fac:
                continue
            for n in walk_no_nested(f.node):
                if isinstance(n, ast.Return) and n.value is not None:
                    v = n.value
                    if isinstance(v, ast.Name):
                        vid = v.id
                        for a in walk_no_nested(f.node):
                            if isinstance(a, ast.Assign) and any(isinstance(t, ast.Name) and t.id == vid for t in a.targets):
                                v = a.value
                    if isinstance(v, ast.Call) and _is_cm_call(ctx, f, v, cms, fac):
                        fac.add(f)
                        changed = True
    return set(cms), fac


def _is_cm_call(ctx: Ctx, fi: Optional[FuncInfo], call: ast.Call, cms, fac, mod=None) -> bool:
    mod = fi.module if fi is not None else mod
    if mod is None:
        return False
    for t in ctx.cg.resolve_call(fi, mod, call):
        if isinstance(t, ClassInfo) and any(c in ctx.prog.mro(t) for c in cms):
            return True
        if isinstance(t, FuncInfo) and t in fac:
            return True
    return False


def rule_ctx2(ctx: Ctx, extra_modules=()) -> RuleResult:
    rr = RuleResult("CTX-2", "the reference context is only ever entered through `with`", floor=1)
    tls_objs = find_tls_objects(ctx)
    cms = [c for c in _context_classes(ctx, tls_objs)]
    _, fac = _factories(ctx, cms)
    mods = list(ctx.prog.pkg_modules()) + list(extra_modules)
    for m in mods:
        for n in ast.walk(m.tree):
            if not isinstance(n, ast.Call):
                continue
            fi = m.func_of_node(n)
            if not _is_cm_call(ctx, fi, n, cms, fac, m):
                # sibling clients: match by attribute name
                if m in extra_modules and isinstance(n.func, ast.Attribute) and n.func.attr in {f.name for f in fac}:
                    pass
                else:
                    continue
            rr.instances += 1
            parent = m.parents.get(n)
            where = m.qual_of_node(n)
            if isinstance(parent, ast.withitem) and parent.context_expr is n:
                rr.ob(m.relpath, where, norm(n), "context manager instance is the context expression of a `with`",
                      DISCHARGED, "used as `with` item", n.lineno)
            elif fi is not None and fi in fac:
                rr.ob(m.relpath, where, norm(n), "context manager instance is the context expression of a `with`",
                      DISCHARGED, "factory: the instance is returned to the caller, whose use is checked", n.lineno,
                      trivial=True)
            elif fi is not None and isinstance(parent, ast.Assign) and len(parent.targets) == 1 and \
                    isinstance(parent.targets[0], ast.Name) and _only_used_as_with_item(fi, parent.targets[0].id):
                rr.ob(m.relpath, where, norm(n), "context manager instance is the context expression of a `with`",
                      DISCHARGED, f"bound to `{parent.targets[0].id}`, whose only use is as a `with` item", n.lineno)
            else:
                rr.ob(m.relpath, where, norm(n), "context manager instance is the context expression of a `with`",
                      VIOLATED, "instance created but not entered through `with`: enter/exit pairing is not guaranteed",
                      n.lineno)
    return rr


def _only_used_as_with_item(fi: FuncInfo, name: str) -> bool:
    uses = [x for x in walk_no_nested(fi.node) if isinstance(x, ast.Name) and x.id == name and isinstance(x.ctx, ast.Load)]
    if not uses:
        return False
    for u in uses:
        par = fi.module.parents.get(u)
        if not (isinstance(par, ast.withitem) and par.context_expr is u):
            return False
    return True


def rule_ctx3(ctx: Ctx) -> RuleResult:
    rr = RuleResult("CTX-3", "code that renders model references runs inside the injected context", floor=1)
    tls_objs = find_tls_objects(ctx)
    cms = _context_classes(ctx, tls_objs)
    _, fac = _factories(ctx, cms)
    readers: Set[FuncInfo] = set()
    for tls in tls_objs:
        for fi, acc in _tls_attr_accesses(ctx, tls):
            if fi is not None and isinstance(acc.ctx, ast.Load) and fi.name not in ("__enter__", "__exit__"):
                readers.add(fi)
    if not readers:
        raise AnalysisError("CTX-3: no reader of the thread-local context found")
    rr.analysed += [f.key for f in readers]
    # functions that contain a `with <factory>()` block and pass a non-trivial mapping
    for f in ctx.prog.all_funcs():
        def _is_cm_item(i):
            e = i.context_expr
            if isinstance(e, ast.Name):
                defs = [d for d in walk_no_nested(f.node) if isinstance(d, ast.Assign) and any(
                    isinstance(t, ast.Name) and t.id == e.id for t in d.targets)]
                return any(isinstance(d.value, ast.Call) and _is_cm_call(ctx, f, d.value, cms, fac) for d in defs)
            return isinstance(e, ast.Call) and _is_cm_call(ctx, f, e, cms, fac)
        withs = [n for n in walk_no_nested(f.node) if isinstance(n, ast.With) and any(_is_cm_item(i) for i in n.items)]
        if not withs:
            continue
        inside = set()
        for w in withs:
            for st in w.body:
                for x in ast.walk(st):
                    inside.add(id(x))
        for n in walk_no_nested(f.node):
            if not isinstance(n, ast.Call) or any(n is i.context_expr for w in withs for i in w.items):
                continue
            if _is_cm_call(ctx, f, n, cms, fac):
                continue
            tgs = [t for t in ctx.cg.resolve_call(f, f.module, n) if isinstance(t, FuncInfo)]
            reach = ctx.cg.reachable(tgs, byname=True) if tgs else set()
            if reach & readers:
                rr.instances += 1
                ok = id(n) in inside
                rr.ob(f.relpath, f.qualname, norm(n.func) + "(...)",
                      "a call that can render a model reference sits inside the `with` that injects the context",
                      DISCHARGED if ok else VIOLATED,
                      "lexically inside the with body" if ok else
                      "rendering happens outside the with body: nested-class references lose their parent path",
                      n.lineno)
    return rr


# ---------------------------------------------------------------------------------------------------------------
# GLOB-1
# ---------------------------------------------------------------------------------------------------------------
def _escapes(fi: FuncInfo) -> bool:
    """Does a nested function outlive the call of its enclosing function (returned / stored / passed on)?"""
    p = fi.parent
    if p is None:
        return True
    for n in walk_no_nested(p.node):
        if isinstance(n, ast.Name) and n.id == fi.name and isinstance(n.ctx, ast.Load):
            par = p.module.parents.get(n)
            if isinstance(par, ast.Call) and par.func is n:
                continue
            return True
    # decorated nested functions (e.g. @wraps(func)) are rebound to the decorator result
    return False


MUTABLE_CTORS = {"dict", "list", "set", "defaultdict", "OrderedDict", "OrderedSet", "deque", "Counter", "bytearray"}


def _is_mutable_value(v: ast.AST) -> bool:
    if isinstance(v, (ast.Dict, ast.List, ast.Set, ast.ListComp, ast.DictComp, ast.SetComp)):
        return True
    if isinstance(v, ast.Call) and norm(v.func).split(".")[-1] in MUTABLE_CTORS:
        return True
    return False


def rule_glob1(ctx: Ctx) -> RuleResult:
    rr = RuleResult("GLOB-1", "no library path writes process-global, class-level, closure or default-argument state",
                    floor=2)
    ef = ctx.effects
    prog = ctx.prog
    cone = ctx.lib_cone
    rr.notes.append(f"library cone: {len(cone)} functions; package functions: {sum(1 for _ in prog.all_funcs())}")
    # inventory of mutable module/class level objects
    inv = []
    for m in prog.pkg_modules():
        for name, vals in m.assigns.items():
            if any(_is_mutable_value(v) or (isinstance(v, ast.Call) and isinstance(
                    prog.resolve_class_expr(m, v.func), ClassInfo)) for v in vals):
                inv.append(f"{m.modname}.{name}")
        for c in m.all_classes:
            for name, v in c.assigns.items():
                if _is_mutable_value(v):
                    inv.append(f"{m.modname}.{c.qualname}.{name}")
    rr.notes.append("mutable module/class-level objects: " + ", ".join(sorted(inv)))
    for f in sorted(prog.all_funcs(), key=lambda x: x.key):
        in_cone = f in cone
        for w in ef.events(f):
            root = w.root
            bad = None
            if root.startswith("global:"):
                bad = f"writes module-level object {root[7:]}"
            elif root.startswith("classattr:"):
                bad = f"writes class-level state of {root[10:]}"
            elif root.startswith("closure:"):
                if _escapes(f):
                    # closure cell bound to an enclosing *parameter* is the caller's object, not hidden state
                    nm = root[8:]
                    p = f.parent
                    is_param = False
                    while p is not None:
                        if nm in param_names(p.node):
                            is_param = True
                            break
                        if nm in local_names(p.node):
                            break
                        p = p.parent
                    if not is_param:
                        bad = f"writes closure cell `{nm}` that outlives the call (shared by every later call)"
            elif root.startswith("alias:") or root.startswith("elem-of:global") or root.startswith("elem-of:classattr"):
                if "global:" in root or "classattr:" in root:
                    bad = f"writes through an alias of {root}"
            elif root == "self" and w.kind in ("item", "mutcall"):
                # self.X[...] = / self.X.append(...) where X only exists at class level (shared by all instances)
                base = w.node
                ch = None
                if isinstance(w.node, ast.Call) and isinstance(w.node.func, ast.Attribute):
                    ch = attr_chain(w.node.func.value)
                elif isinstance(w.node, (ast.Assign, ast.AugAssign, ast.AnnAssign, ast.Delete)):
                    tg = w.node.targets if isinstance(w.node, (ast.Assign, ast.Delete)) else [w.node.target]
                    for t in tg:
                        if isinstance(t, ast.Subscript):
                            ch = attr_chain(t.value)
                owner = ef._owner(f)
                if ch and len(ch) >= 2 and ch[0] == "self" and owner is not None:
                    attr = ch[1]
                    ca = prog.lookup_class_attr(owner, attr)
                    if ca is not None and ca.value is not None and (_is_mutable_value(ca.value) or (
                            isinstance(ca.value, ast.Call) and norm(ca.value.func).split(".")[-1] not in (
                                "frozenset", "tuple", "str", "int", "float", "bool", "bytes", "object") and len(ch) >= 3)):
                        inst_assigned = False
                        for k in prog.mro(owner) + prog.subclasses(owner, strict=True):
                            for ms in k.methods.values():
                                for g in ms:
                                    for n in walk_no_nested(g.node):
                                        if isinstance(n, (ast.Assign, ast.AnnAssign)):
                                            for t in (n.targets if isinstance(n, ast.Assign) else [n.target]):
                                                if isinstance(t, ast.Attribute) and t.attr == attr and \
                                                        isinstance(t.value, ast.Name) and t.value.id == "self":
                                                    inst_assigned = True
                        if not inst_assigned:
                            bad = f"mutates class-level object {owner.qualname}.{attr} through self (shared by all instances)"
            elif root.startswith("param:") and w.kind in ("item", "mutcall", "attr"):
                # mutable default argument objects
                nm = root[6:]
                a = f.node.args
                pos = a.posonlyargs + a.args
                defaults = dict(zip([p.arg for p in pos[len(pos) - len(a.defaults):]], a.defaults))
                defaults.update({p.arg: d for p, d in zip(a.kwonlyargs, a.kw_defaults) if d is not None})
                if nm in defaults and _is_mutable_value(defaults[nm]):
                    bad = f"mutates parameter `{nm}` whose default is a mutable object created once at definition time"
            if bad is None:
                continue
            rr.instances += 1
            st = "library code keeps no state beyond the objects passed to it"
            text = w.path + (f" -> {w.via}" if w.via else "")
            if not in_cone and f not in ctx.cli_cone:
                rr.ob(f.relpath, f.qualname, text, st, ALLOWED,
                      bad + " - but the function is reachable neither from a library entry point nor from main "
                            "(unused helper)", w.line)
            else:
                rr.ob(f.relpath, f.qualname, text, st, VIOLATED,
                      bad + ("; reachable from the library entry points, so one generation can influence the next"
                             if in_cone else "; the change outlives this command line: a later or concurrent run in the same "
                                             "process (another Cli object, a library pipeline using the defaults) sees it"),
                      w.line)
    # positive control: the summaries that make a call like `register_datetime_classes()` (default argument = the
    # module-level registry) or `registry.remove_by_name(..)` visible as a write must be in place
    rdc = [f for f in prog.all_funcs() if f.name == "register_datetime_classes"]
    rbn = [f for f in prog.all_funcs() if f.qualname == "StringSerializableRegistry.remove_by_name"]
    if not rdc or not rbn:
        raise AnalysisError("GLOB-1 positive control: register_datetime_classes / remove_by_name vanished")
    if not ef.mutated_params(rdc[0]) or not ef.self_mutating(rbn[0]):
        raise AnalysisError("GLOB-1 positive control failed: the effect summaries no longer see that register_datetime_classes "
                            "mutates the registry it is given / that remove_by_name mutates its registry")
    # class-level mutable attributes must flow only into copies on library paths
    for c in prog.all_classes():
        for name, v in c.assigns.items():
            if not _is_mutable_value(v):
                continue
            for k in prog.subclasses(c):
                for ms in k.methods.values():
                    for g in ms:
                        if g not in cone:
                            continue
                        for n in walk_no_nested(g.node):
                            if isinstance(n, ast.Attribute) and n.attr == name and isinstance(n.ctx, ast.Load) and \
                                    isinstance(n.value, ast.Name) and n.value.id in ("self", "cls"):
                                par = g.module.parents.get(n)
                                rr.instances += 1
                                st = f"class-level mutable `{c.qualname}.{name}` is only read or copied on library paths"
                                if isinstance(par, ast.Call) and n in par.args and norm(par.func) in (
                                        "copy.deepcopy", "deepcopy", "dict", "list", "copy.copy", "copy"):
                                    deep = "deepcopy" in norm(par.func)
                                    nested_mut = any(_is_mutable_value(x) for x in ast.walk(v) if x is not v)
                                    bad_w = None
                                    if not deep and nested_mut:
                                        # which local holds the shallow copy, and is an inner object written through it?
                                        asg = g.module.parents.get(par)
                                        if isinstance(asg, (ast.Assign, ast.AnnAssign)):
                                            tg = asg.targets[0] if isinstance(asg, ast.Assign) else asg.target
                                            tname = norm(tg)
                                            for w in ef.direct_writes(g):
                                                pth = w.path
                                                if not pth.startswith(tname + "["):
                                                    continue
                                                depth_sub = 0
                                                node_t = None
                                                if isinstance(w.node, (ast.Assign, ast.AugAssign, ast.AnnAssign, ast.Delete)):
                                                    tgts = w.node.targets if isinstance(w.node, (ast.Assign, ast.Delete)) else [w.node.target]
                                                    for t in tgts:
                                                        x = t
                                                        d = 0
                                                        while isinstance(x, ast.Subscript):
                                                            d += 1
                                                            x = x.value
                                                        if norm(x) == tname:
                                                            depth_sub = max(depth_sub, d)
                                                elif isinstance(w.node, ast.Call) and isinstance(w.node.func, ast.Attribute):
                                                    x = w.node.func.value
                                                    d = 0
                                                    while isinstance(x, ast.Subscript):
                                                        d += 1
                                                        x = x.value
                                                    if norm(x) == tname:
                                                        depth_sub = d + 1
                                                if depth_sub >= 2:
                                                    bad_w = w
                                    if bad_w is not None:
                                        rr.ob(g.relpath, g.qualname, norm(par), st, VIOLATED,
                                              f"only a shallow copy is taken, and `{bad_w.path}` (line {bad_w.line}) then "
                                              f"writes into an inner object that is still the class-level one: the value "
                                              f"leaks to every other generator of the class family", n.lineno)
                                    else:
                                        rr.ob(g.relpath, g.qualname, norm(par), st, DISCHARGED,
                                              "flows into a deep copy" if deep else
                                              "flows into a shallow copy whose inner objects are not written here", n.lineno)
                                elif isinstance(par, ast.Assign) or (isinstance(par, ast.Call) and n in par.args):
                                    # assigned to a name / passed on: the alias may be mutated later
                                    alias_mut = False
                                    if isinstance(par, ast.Assign) and isinstance(par.targets[0], (ast.Name, ast.Attribute)):
                                        tname = norm(par.targets[0])
                                        for w in ef.direct_writes(g):
                                            if w.path.startswith(tname + "[") or w.path.startswith(tname + "."):
                                                alias_mut = True
                                    rr.ob(g.relpath, g.qualname, norm(par) if not isinstance(par, ast.Assign) else norm(par),
                                          st, VIOLATED if alias_mut else DISCHARGED,
                                          "aliased and then mutated in the same function" if alias_mut else
                                          "aliased/passed but not mutated here", n.lineno)
                                else:
                                    rr.ob(g.relpath, g.qualname, norm(par) if par is not None else norm(n), st, DISCHARGED,
                                          "read-only use", n.lineno, trivial=True)
    return rr


# ---------------------------------------------------------------------------------------------------------------
# CACHE-1 / CACHE-2
# ---------------------------------------------------------------------------------------------------------------
class MemoWrapper:
    def __init__(self, deco: FuncInfo, inner: FuncInfo, store_root: str, store_text: str, get_key: ast.AST,
                 set_key: ast.AST, wrapped_param: str):
        self.deco, self.inner = deco, inner
        self.store_root, self.store_text = store_root, store_text
        self.get_key, self.set_key, self.wrapped_param = get_key, set_key, wrapped_param


def find_memo_wrappers(ctx: Ctx) -> List[MemoWrapper]:
    out = []
    ef = ctx.effects
    for deco in ctx.prog.all_funcs():
        if deco.parent is not None or deco.cls is not None:
            continue
        params = param_names(deco.node)
        if not params:
            continue
        for inner in ctx.prog.all_funcs():
            if inner.parent is not deco:
                continue
            sets = []
            gets = []
            for n in walk_no_nested(inner.node):
                if isinstance(n, ast.Assign):
                    sets.extend(t for t in n.targets if isinstance(t, ast.Subscript))
                if isinstance(n, ast.Call) and isinstance(n.func, ast.Attribute) and n.func.attr == "get" and n.args:
                    gets.append((n.func.value, n.args[0]))
                if isinstance(n, ast.Compare) and len(n.ops) == 1 and isinstance(n.ops[0], (ast.In, ast.NotIn)):
                    gets.append((n.comparators[0], n.left))
                if isinstance(n, ast.Subscript) and isinstance(n.ctx, ast.Load):
                    gets.append((n.value, n.slice))
            for s in sets:
                for gstore, gkey in gets:
                    if norm(gstore) == norm(s.value):
                        # the wrapped callable must be invoked inside (a memo wrapper, not just any dict write)
                        calls_wrapped = any(isinstance(c, ast.Call) and isinstance(c.func, ast.Name) and c.func.id in params
                                            for c in walk_no_nested(inner.node))
                        if not calls_wrapped:
                            continue
                        root, _ = ef.root_of(inner, s.value)
                        if root == "local" and isinstance(s.value, ast.Name):
                            # a local bound to getattr(<obj>, '<store>', ...) / <obj>.<store>: the store lives on <obj>
                            for d in walk_no_nested(inner.node):
                                if isinstance(d, ast.Assign) and any(isinstance(t, ast.Name) and t.id == s.value.id for t in d.targets) \
                                        and isinstance(d.value, ast.Call) and norm(d.value.func) == "getattr" and d.value.args:
                                    root, _ = ef.root_of(inner, d.value.args[0])
                                    if isinstance(d.value.args[0], ast.Name) and d.value.args[0].id == "self":
                                        root = "self"
                        wp = next((c.func.id for c in walk_no_nested(inner.node)
                                   if isinstance(c, ast.Call) and isinstance(c.func, ast.Name) and c.func.id in params))
                        out.append(MemoWrapper(deco, inner, root, norm(s.value), gkey, s.slice, wp))
                        break
                else:
                    continue
                break
    return out


def _resolve_local(fi: FuncInfo, e: ast.AST) -> ast.AST:
    if isinstance(e, ast.Name):
        defs = [n for n in walk_no_nested(fi.node) if isinstance(n, ast.Assign) and any(
            isinstance(t, ast.Name) and t.id == e.id for t in n.targets)]
        if len(defs) == 1:
            return defs[0].value
    return e


def _decorated_by(ctx: Ctx, deco: FuncInfo) -> List[FuncInfo]:
    out = []
    for f in ctx.prog.all_funcs():
        for d in getattr(f.node, "decorator_list", []):
            dexpr = d.func if isinstance(d, ast.Call) else d
            r = ctx.prog.resolve_class_expr(f.module, dexpr, f.cls)
            if r == deco:
                out.append(f)
    return out


def rule_cache1(ctx: Ctx) -> RuleResult:
    rr = RuleResult("CACHE-1", "memoisation on library paths is per instance", floor=2)
    wrappers = find_memo_wrappers(ctx)
    if not wrappers:
        raise AnalysisError("CACHE-1: no memoisation wrapper recognised (cached_method vanished?)")
    cone = ctx.lib_cone
    for w in wrappers:
        users = _decorated_by(ctx, w.deco)
        rr.analysed.append(f"{w.deco.key}: store `{w.store_text}` root={w.store_root}, {len(users)} decorated functions")
        for u in users:
            rr.instances += 1
            st = "a memoised function on a library path stores its results on the instance it was called on"
            if w.store_root == "self":
                rr.ob(u.relpath, u.qualname, f"@{w.deco.name}", st, DISCHARGED,
                      f"store `{w.store_text}` lives on the receiver", u.node.lineno)
            elif u in cone:
                rr.ob(u.relpath, u.qualname, f"@{w.deco.name}", st, VIOLATED,
                      f"store `{w.store_text}` is {w.store_root}: results are shared by all instances and survive the "
                      f"generation (stale labels for other unicode / naming options)", u.node.lineno)
            else:
                rr.ob(u.relpath, u.qualname, f"@{w.deco.name}", st, ALLOWED,
                      "shared store, but the function is not reachable from library entry points", u.node.lineno)
        if not users:
            rr.ob(w.deco.relpath, w.deco.qualname, f"store {w.store_text}", "unused memo wrapper", DISCHARGED,
                  f"root={w.store_root}; no function is decorated with it", w.deco.node.lineno, trivial=True)
            rr.instances += 1
    # functools caches
    for f in ctx.prog.all_funcs():
        for d in f.decorators:
            base = d.split("(")[0]
            in_cli = f in ctx.cli_cone or f.relpath.endswith("cli.py")
            if base.split(".")[-1] in ("lru_cache", "cache", "cached_property") and (f in cone or in_cli):
                rr.instances += 1
                if f not in cone and not base.endswith("cached_property"):
                    rr.ob(f.relpath, f.qualname, "@" + d, "what one command line read or computed is not served to the next one in "
                          "the same process", VIOLATED,
                          "functools cache on a function of the command line: it is process-global and keyed by the arguments only "
                          "(a path, an option string), so a second run sees the first run's file content or result even when the "
                          "file has changed", f.node.lineno)
                    continue
                if base.endswith("cached_property"):
                    rr.ob(f.relpath, f.qualname, "@" + d, "per-instance cache", DISCHARGED,
                          "functools.cached_property stores on the instance", f.node.lineno)
                    continue
                rr.ob(f.relpath, f.qualname, "@" + d,
                      "a memoised function on a library path stores its results on the instance it was called on",
                      VIOLATED, "functools cache is process-global and keyed by argument equality/hash; model objects "
                                "hash by index, so entries from an earlier generation are served to a later one",
                      f.node.lineno)
    return rr


def rule_cache2(ctx: Ctx) -> RuleResult:
    rr = RuleResult("CACHE-2", "functions sharing one memo store are separated by the key", floor=1)
    wrappers = find_memo_wrappers(ctx)
    if not wrappers:
        raise AnalysisError("CACHE-2: no memoisation wrapper recognised")
    for w in wrappers:
        users = _decorated_by(ctx, w.deco)
        # users sharing a store: same wrapper + per-instance store => methods of one class hierarchy
        groups: Dict[str, List[FuncInfo]] = {}
        if w.store_root == "self":
            for u in users:
                if u.cls is None:
                    continue
                top = ctx.prog.mro(u.cls)[-1]
                groups.setdefault(top.key, []).append(u)
        for gk, us in groups.items():
            if len(us) < 2:
                continue
            rr.instances += 1
            gk_expr = _resolve_local(w.inner, w.get_key)
            sk_expr = _resolve_local(w.inner, w.set_key)
            mentions = lambda e: any(isinstance(x, ast.Name) and x.id == w.wrapped_param for x in ast.walk(e))
            same = norm(gk_expr) == norm(sk_expr)
            ok = same and mentions(gk_expr)
            rr.ob(w.inner.relpath, w.inner.qualname, f"{w.store_text}[{norm(w.set_key)}]",
                  f"{len(us)} functions ({', '.join(u.qualname for u in us)}) write the same per-instance store; the key "
                  f"must identify the wrapped function", DISCHARGED if ok else VIOLATED,
                  f"key `{norm(gk_expr)}` includes the wrapped callable `{w.wrapped_param}`" if ok else
                  (f"lookup key `{norm(gk_expr)}` and store key `{norm(sk_expr)}` differ" if not same else
                   f"key `{norm(gk_expr)}` is built from the arguments only: a result computed by one function is served "
                   f"for another called with equal arguments (a field named like its class gets the class-name label)"),
                  w.inner.node.lineno)
        rr.analysed.append(f"{w.deco.key}: users={[u.qualname for u in users]}")
    # a subclass override that bypasses the cache may only return constants unchanged
    return rr


def _scoped_glob1(ctx: Ctx, rule_id: str, title: str, pred) -> RuleResult:
    full = rule_glob1(ctx)
    rr = RuleResult(rule_id, title, floor=1)
    rr.notes = full.notes
    for o in full.obligations:
        if pred(o):
            rr.obligations.append(o)
            o.rule = rule_id
    rr.instances = max(len(rr.obligations), 1)  # the unscoped rule already passed its positive control
    return rr


def rule_glob1_generators(ctx: Ctx) -> RuleResult:
    """GLOB-1 restricted to the code generator classes and the typing renderers (style tables are per instance)."""
    return _scoped_glob1(ctx, "GLOB-1g", "generators and type renderers keep no state shared between instances",
                         lambda o: o.file.startswith("json_to_models/models/") and "string_converters" not in o.file
                         or o.file.startswith("json_to_models/dynamic_typing/"))


def rule_glob1_converters(ctx: Ctx) -> RuleResult:
    """GLOB-1 restricted to the run-time string converters."""
    return _scoped_glob1(ctx, "GLOB-1c", "the post-init converter runtime keeps no state shared between classes",
                         lambda o: "string_converters" in o.file)


def rule_pure1(ctx: Ctx) -> RuleResult:
    """Rendering a type to typing code does not change the type graph (so a second rendering sees the same graph)."""
    rr = RuleResult("PURE-1", "rendering types to code is read-only on the type graph", floor=5)
    prog = ctx.prog
    ef = ctx.effects
    roots = [f for f in prog.all_funcs() if f.name == "to_typing_code"] + [prog.func("json_to_models/dynamic_typing/typing.py",
                                                                                  "metadata_to_typing")]
    # constructors initialise fresh objects (AbsoluteModelRef(...)): not followed
    cone: Set[FuncInfo] = set()
    stack = list(roots)
    while stack:
        g = stack.pop()
        if g in cone or g.name == "__init__":
            continue
        cone.add(g)
        stack.extend(ctx.cg.callees(g, byname=False) - cone)
    benign = {"_hash", "_sorted"}  # memo cells that are invalidated with the content (EQ-1)
    for f in sorted(cone, key=lambda x: x.key):
        if not f.relpath.startswith("json_to_models/dynamic_typing/"):
            continue
        rr.instances += 1
        bad = []
        for w in ef.direct_writes(f):
            if w.root in ("self",) or w.root.startswith("param:") or w.root.startswith("classattr"):
                attr = w.path.split(".")[1].split("[")[0] if "." in w.path else w.path
                if attr in benign:
                    continue
                bad.append(w)
        rr.ob(f.relpath, f.qualname, norm(bad[0].node)[:70] if bad else f.name, "no attribute or container of a type object is "
              "written while annotations are rendered", VIOLATED if bad else DISCHARGED,
              f"`{bad[0].path}` is modified during rendering: the next rendering of the same registry (other limits, other "
              f"framework) starts from a degraded graph" if bad else "read-only", bad[0].line if bad else f.node.lineno)
    return rr


# ---------------------------------------------------------------------------------------------------------------
# CPython refuses these outside the main thread of the main interpreter (ValueError / RuntimeError)
MAIN_THREAD_ONLY = {"signal.signal": "ValueError: signal only works in main thread of the main interpreter",
                    "signal.set_wakeup_fd": "ValueError: set_wakeup_fd only works in main thread"}
# per-thread settings: done at import time they exist in the importing thread only
PER_THREAD_SETTERS = ("decimal.getcontext", "decimal.setcontext", "getcontext", "setcontext", "asyncio.set_event_loop",
                      "sys.settrace", "sys.setprofile", "threading.settrace")


def _main_thread_only_calls(tree: ast.AST) -> list:
    # local aliases: `import signal as sg`, `from signal import signal`
    alias = {}
    for n in ast.walk(tree):
        if isinstance(n, ast.Import):
            for a in n.names:
                if a.name == "signal":
                    alias[a.asname or "signal"] = "signal"
        elif isinstance(n, ast.ImportFrom) and n.module == "signal":
            for a in n.names:
                alias[a.asname or a.name] = f"signal.{a.name}"
    out = []
    for n in ast.walk(tree):
        if isinstance(n, ast.Call):
            fn = norm(n.func)
            head = fn.split(".")[0]
            if head in alias:
                full = alias[head] + fn[len(head):]
                if full in MAIN_THREAD_ONLY:
                    out.append((n, full))
    return out


def rule_thread1(ctx: Ctx) -> RuleResult:
    rr = RuleResult("THREAD-1", "no call on a generation path is restricted to the main thread", floor=1)
    # positive control: the matcher must recognise the construct it looks for
    ctl = ast.parse("import signal as sg\nfrom signal import signal\ndef f():\n    sg.signal(2, None)\n    signal(2, None)\n")
    if len(_main_thread_only_calls(ctl)) != 2:
        raise AnalysisError("THREAD-1: positive control failed (matcher does not recognise signal.signal)")
    prog = ctx.prog
    scope = set(ctx.lib_cone) | set(ctx.cli_cone)
    entry = prog.func("json_to_models/cli.py", "main")
    n_funcs = 0
    st = ("generation, rendering and Cli.run work from any thread: nothing they call is refused outside the main thread")
    by_mod = {}
    for m in prog.pkg_modules():
        by_mod[m.relpath] = {id(c): full for c, full in _main_thread_only_calls(m.tree)}
    for f in sorted(scope, key=lambda x: x.key):
        if f is entry:
            continue
        n_funcs += 1
        hits = by_mod.get(f.relpath, {})
        for n in walk_no_nested(f.node):
            if isinstance(n, ast.Call) and id(n) in hits:
                full = hits[id(n)]
                rr.instances += 1
                rr.ob(f.relpath, f.qualname, norm(n)[:80], st, VIOLATED,
                      f"`{full}` may only be called from the main thread ({MAIN_THREAD_ONLY[full]}); {f.qualname} is "
                      f"reachable from a worker thread", n.lineno)
    # settings that are per thread, applied at import time (module level): every other thread runs without them
    for m in prog.pkg_modules():
        fn_nodes = {id(x) for f in m.all_funcs for x in ast.walk(f.node)}
        for n in ast.walk(m.tree):
            if isinstance(n, ast.Call) and id(n) not in fn_nodes and norm(n.func) in PER_THREAD_SETTERS:
                rr.instances += 1
                rr.ob(m.relpath, "<module>", norm(n)[:60], "the result of a generation does not depend on which thread imported the "
                      "package", VIOLATED,
                      f"`{norm(n.func)}` configures the current thread only: the setting made at import time exists in the importing "
                      f"thread and nowhere else, so the same generation gives another result from a worker thread", n.lineno)
    rr.instances += 1
    rr.ob("json_to_models", "<package>", f"{n_funcs} functions on generation / CLI paths", st, DISCHARGED,
          f"none of {sorted(MAIN_THREAD_ONLY)} is called (positive control matched 2/2)", 1)
    if n_funcs < 50:
        raise AnalysisError(f"THREAD-1: only {n_funcs} functions in scope")
    return rr


# ---------------------------------------------------------------------------------------------------------------
# third-party objects that keep per-use state: one instance must not serve two threads at once
STATEFUL_EXTERNAL = {
    "ruamel.yaml.YAML": "a YAML() instance owns reader, scanner, parser and composer state for the document being loaded",
    "yaml.YAML": "a YAML() instance owns reader, scanner, parser and composer state for the document being loaded",
    "configparser.ConfigParser": "read_file() fills the parser's sections",
    "configparser.RawConfigParser": "read_file() fills the parser's sections",
    "random.Random": "generator state",
    "io.StringIO": "stream position", "io.BytesIO": "stream position",
    "itertools.count": "iterator state", "itertools.cycle": "iterator state",
    "hashlib.md5": "digest state", "hashlib.sha1": "digest state", "hashlib.sha256": "digest state",
    "sqlite3.connect": "connection state", "open": "file position",
}


def _import_aliases(tree: ast.AST) -> Dict[str, str]:
    al: Dict[str, str] = {}
    for n in ast.walk(tree):
        if isinstance(n, ast.Import):
            for a in n.names:
                al[a.asname or a.name.split(".")[0]] = a.name if a.asname else a.name.split(".")[0]
        elif isinstance(n, ast.ImportFrom) and n.module and n.level == 0:
            for a in n.names:
                al[a.asname or a.name] = f"{n.module}.{a.name}"
    return al


def _stateful_module_objects(tree: ast.AST) -> List[Tuple[str, ast.AST, str]]:
    """(name, node, dotted constructor) for names bound at module level to (a bound method of) a stateful third-party object."""
    al = _import_aliases(tree)
    out = []
    fn_nodes = {id(x) for f in ast.walk(tree) if isinstance(f, (ast.FunctionDef, ast.AsyncFunctionDef, ast.Lambda))
                for x in ast.walk(f) if x is not f}
    for n in ast.walk(tree):
        if isinstance(n, (ast.Assign, ast.AnnAssign)) and id(n) not in fn_nodes and getattr(n, "value", None) is not None:
            for c in ast.walk(n.value):
                if id(c) in fn_nodes or not isinstance(c, ast.Call):
                    continue
                fn = norm(c.func)
                head = fn.split(".")[0]
                dotted = (al[head] + fn[len(head):]) if head in al else fn
                if dotted in STATEFUL_EXTERNAL:
                    for t in (n.targets if isinstance(n, ast.Assign) else [n.target]):
                        if isinstance(t, ast.Name):
                            out.append((t.id, n, dotted))     # module level, or a class attribute (bound once per process)
    return out


def rule_shared1(ctx: Ctx) -> RuleResult:
    rr = RuleResult("SHARED-1", "no stateful third-party object created at import time is used by concurrent runs", floor=1)
    ctl = ast.parse("import ruamel.yaml as yaml\nload = yaml.YAML(typ='safe').load\nimport re\nP = re.compile('x')\n")
    got = _stateful_module_objects(ctl)
    if [g[0] for g in got] != ["load"]:
        raise AnalysisError("SHARED-1: positive control failed")
    prog = ctx.prog
    scope = set(ctx.lib_cone) | set(ctx.cli_cone)
    st = ("objects built once at import are shared by every thread; a parser / stream / iterator object among them is "
          "used by one run at a time only")
    n_mod = 0
    for m in prog.pkg_modules():
        n_mod += 1
        for name, node, dotted in _stateful_module_objects(m.tree):
            users = [f for f in m.all_funcs if f in scope and any(
                (isinstance(x, ast.Name) and x.id == name and isinstance(x.ctx, ast.Load)) or
                (isinstance(x, ast.Attribute) and x.attr == name and isinstance(x.ctx, ast.Load)) for x in ast.walk(f.node))]
            rr.instances += 1
            if users:
                rr.ob(m.relpath, users[0].qualname, norm(node)[:80], st, VIOLATED,
                      f"`{name}` is bound at import to an instance of {dotted} ({STATEFUL_EXTERNAL[dotted]}) and used in "
                      f"{', '.join(u.qualname for u in users[:3])}: two threads loading at the same time corrupt each other's "
                      f"parse", node.lineno)
            else:
                rr.ob(m.relpath, "<module>", norm(node)[:80], st, DISCHARGED, "not used on a generation / CLI path", node.lineno)
    rr.instances += 1
    rr.ob("json_to_models", "<package>", f"{n_mod} modules", st, DISCHARGED, "inventory complete (positive control matched)", 1)
    return rr


def rule_glob1_registry(ctx: Ctx) -> RuleResult:
    """GLOB-1 restricted to the model registry (its results are per call: no list shared between calls or registries)."""
    return _scoped_glob1(ctx, "GLOB-1r", "the model registry keeps no state shared between calls or registries",
                         lambda o: o.file.endswith("json_to_models/registry.py"))
