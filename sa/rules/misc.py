"""Small structural rules added against the fourth batch of seeded changes.

EQHASH-1   a class with structural equality hashes by identity (a unique token), never by an arithmetic digest
ASSERT-1   no assert statement has a side effect the program relies on (python -O removes it)
COMPOSE-1  composing the layout does not write into the models it is given
LATE-1     no function or generator created in a loop and kept for later reads that loop's variables
CONVNUM-1  the command line's percent converter is the exact quotient N / 100
ARITY-1    --model tuples of a wrong length are rejected
ARGP-1     the argument parser takes every argument literally
EMPTY-1    "class without fields -> pass" is decided on the fields that are actually emitted
CONSTESC-1 a class-level mutable constant is not handed out to callers that modify what they get
EXITCM-1   no context manager of the package swallows exceptions
"""
from __future__ import annotations

import ast
from typing import Dict, List, Optional, Set, Tuple

from ..ctx import Ctx
from ..model import AnalysisError, ClassInfo, FuncInfo, norm, walk_no_nested
from ..report import ALLOWED, DISCHARGED, VIOLATED, RuleResult

CLI = "json_to_models/cli.py"
BASE = "json_to_models/models/base.py"
MUTATORS = ("append", "extend", "add", "update", "insert", "setdefault", "pop", "remove", "discard", "clear", "popitem", "sort")


# ---------------------------------------------------------------------------------------------------------------
def rule_eqhash1(ctx: Ctx) -> RuleResult:
    rr = RuleResult("EQHASH-1", "objects that compare structurally hash by a unique token", floor=2)
    prog = ctx.prog
    n = 0
    for c in sorted(prog.all_classes(), key=lambda k: k.qualname):
        hs = c.methods.get("__hash__", [])
        if not hs:
            continue
        f = hs[0]
        n += 1
        rr.instances += 1
        rets = [r for r in walk_no_nested(f.node) if isinstance(r, ast.Return) and r.value is not None]
        st = (f"{c.name} objects are kept in sets and used as dict keys while models are merged; their equality is structural "
              f"(two models with equal fields are equal), so the hash has to tell apart every two objects that are not the same: "
              f"id(self) or the hash of the unique index")
        bad = None
        for r in rets:
            v = r.value
            ok = (isinstance(v, ast.Call) and norm(v.func) == "id" and norm(v.args[0]) == "self") or \
                 (isinstance(v, ast.Call) and norm(v.func) == "hash" and len(v.args) == 1 and
                  isinstance(v.args[0], (ast.Attribute, ast.Tuple)) and "self" in norm(v.args[0]) and
                  not any(isinstance(x, ast.Call) for x in ast.walk(v.args[0]))) or \
                 (isinstance(v, ast.Call) and norm(v.func).startswith("super()"))
            if not ok:
                bad = r
        rr.ob(f.relpath, f.qualname, norm(rets[0])[:70] if rets else "__hash__", st, VIOLATED if bad is not None or not rets else DISCHARGED,
              "identity / unique index" if bad is None and rets else
              f"`{norm(bad)[:60] if bad is not None else '__hash__'}` computes a digest in which different objects coincide (e.g. the "
              f"indexes 1B and 2A have the same character sum): together with structural equality two distinct models become one "
              f"set element and one of them drops out of its merge group", f.node.lineno)
        # what the hash is computed from never changes after construction (the object sits in sets / is a dict key meanwhile)
        read = sorted({x.attr for x in walk_no_nested(f.node) if isinstance(x, ast.Attribute) and norm(x.value) == "self"
                       and isinstance(x.ctx, ast.Load) and x.attr not in c.methods})
        related = set(prog.mro(c)) | set(prog.subclasses(c))
        for a in read:
            writers = []
            for k in related:
                for ms in k.methods.values():
                    for g in ms:
                        if g.name == "__init__":
                            continue
                        for x in walk_no_nested(g.node):
                            tg = []
                            if isinstance(x, ast.Assign):
                                tg = x.targets
                            elif isinstance(x, (ast.AugAssign, ast.AnnAssign)):
                                tg = [x.target]
                            if any(isinstance(t, ast.Attribute) and norm(t.value) == "self" and t.attr == a for t in tg):
                                writers.append((g, x))
            rr.instances += 1
            rr.ob(f.relpath, f.qualname, f"self.{a}", f"the hash of a {c.name} depends only on what is fixed when the object is built: a "
                  f"dict keyed by such objects (the path map of the nested layout) finds them again after they were renamed",
                  VIOLATED if writers else DISCHARGED,
                  f"`self.{a}` is assigned in {writers[0][0].qualname} (line {writers[0][1].lineno}): after that the object is no longer "
                  f"found under its old hash - the first rendering renames the model, a second rendering misses its entry" if writers else
                  "assigned in __init__ only", f.node.lineno)
    if n < 2:
        raise AnalysisError(f"EQHASH-1: only {n} __hash__ implementations found")
    return rr


# ---------------------------------------------------------------------------------------------------------------
def assert_side_effects(tree: ast.AST) -> List[Tuple[ast.Assert, ast.AST]]:
    out = []
    for a in ast.walk(tree):
        if isinstance(a, ast.Assert):
            for x in ast.walk(a.test):
                if isinstance(x, ast.Call) and isinstance(x.func, ast.Attribute) and x.func.attr in MUTATORS:
                    out.append((a, x))
                if isinstance(x, ast.NamedExpr):
                    out.append((a, x))
                if isinstance(x, ast.Call) and norm(x.func) in ("setattr", "next", "delattr"):
                    out.append((a, x))
    return out


def rule_assert1(ctx: Ctx) -> RuleResult:
    rr = RuleResult("ASSERT-1", "no assert carries a side effect the program needs", floor=1)
    ctl = ast.parse("def f(d, k):\n    assert d.setdefault(k, 1) == 1\n    assert (y := 3)\n    assert len(d) > 0\n")
    if len(assert_side_effects(ctl)) != 2:
        raise AnalysisError("ASSERT-1: positive control failed")
    st = "the output is the same under `python -O` (which drops assert statements) as without it"
    nm = 0
    for m in ctx.prog.pkg_modules():
        nm += 1
        for a, x in assert_side_effects(m.tree):
            rr.instances += 1
            fn = next((f for f in m.all_funcs if any(a is y for y in ast.walk(f.node))), None)
            rr.ob(m.relpath, fn.qualname if fn else "<module>", norm(a)[:80], st, VIOLATED,
                  f"`{norm(x)[:50]}` happens only while asserts are enabled: an optimised interpreter skips it and produces "
                  f"different output", a.lineno)
    rr.instances += 1
    rr.ob("json_to_models", "<package>", f"{nm} modules", st, DISCHARGED, "no assert with a side effect (positive control matched)", 1)
    return rr


# ---------------------------------------------------------------------------------------------------------------
def rule_compose1(ctx: Ctx) -> RuleResult:
    rr = RuleResult("COMPOSE-1", "laying out the classes reads the model graph and writes nothing into it", floor=3)
    prog = ctx.prog
    mod = prog.module("json_to_models/models/structure.py")
    st = ("the layout functions build new lists and dicts; they leave no mark on the ModelMeta objects or on the mapping they are "
          "given, so composing the same registry again (another layout, after another merge) starts from the same graph")
    n = 0
    for f in sorted(mod.all_funcs, key=lambda x: x.key):
        if f.parent is not None:
            continue
        n += 1
        rr.instances += 1
        params = set(f.params)
        bad = []
        for w in ctx.effects.events(f):
            if w.kind not in ("attr", "item", "mutcall"):
                continue
            r = w.root
            if r.startswith("param:") or r.startswith("elem-of:param") or r.startswith("alias:") and "param:" in r:
                bad.append(w)
        # attribute writes on loop variables that iterate a parameter (for model in models_map.values(): model.x = ...)
        for n_ in walk_no_nested(f.node):
            if isinstance(n_, (ast.Assign, ast.AugAssign, ast.AnnAssign)):
                for t in (n_.targets if isinstance(n_, ast.Assign) else [n_.target]):
                    if isinstance(t, ast.Attribute) and isinstance(t.value, ast.Name) and t.value.id not in ("self",):
                        root, _ = ctx.effects.root_of(f, t.value)
                        if "param" in root:
                            bad.append(type("W", (), {"path": norm(t), "line": n_.lineno, "root": root})())
            if isinstance(n_, ast.Call) and norm(n_.func) == "setattr" and n_.args and isinstance(n_.args[0], ast.Name):
                root, _ = ctx.effects.root_of(f, n_.args[0])
                if "param" in root:
                    bad.append(type("W", (), {"path": norm(n_)[:50], "line": n_.lineno, "root": root})())
        if bad:
            w = bad[0]
            rr.ob(f.relpath, f.qualname, w.path[:70], st, VIOLATED,
                  f"`{w.path[:50]}` writes into an object reachable from the arguments ({w.root}): a later composition of the "
                  f"same registry finds what this one left behind", w.line)
        else:
            rr.ob(f.relpath, f.qualname, f.name, st, DISCHARGED, "arguments are only read", f.node.lineno)
    if n < 3:
        raise AnalysisError(f"COMPOSE-1: only {n} layout functions found")
    return rr


# ---------------------------------------------------------------------------------------------------------------
def late_bound(tree: ast.AST) -> List[Tuple[ast.AST, ast.AST, str]]:
    """(loop, deferred construct, variable): a lambda / generator expression / nested def created in the body of a loop that
    reads a variable bound by that loop (target or assigned in the body) and is not consumed in the same statement."""
    out = []
    parents: Dict[ast.AST, ast.AST] = {}
    for p in ast.walk(tree):
        for c in ast.iter_child_nodes(p):
            parents[c] = p
    for lp in ast.walk(tree):
        if not isinstance(lp, (ast.For, ast.While)):
            continue
        bound: Set[str] = set()
        if isinstance(lp, ast.For):
            bound |= {x.id for x in ast.walk(lp.target) if isinstance(x, ast.Name)}
        for st in lp.body:
            for x in ast.walk(st):
                if isinstance(x, ast.Name) and isinstance(x.ctx, ast.Store):
                    bound.add(x.id)
        for st in lp.body:
            for d in ast.walk(st):
                if not isinstance(d, (ast.Lambda, ast.GeneratorExp, ast.FunctionDef)):
                    continue
                # immediately consumed? (argument of a call that drains it: list(), extend(), sum(), any(), join(), sorted() ...)
                par = parents.get(d)
                consumed = isinstance(par, ast.Call) and d in par.args and (
                    norm(par.func) in ("list", "tuple", "set", "frozenset", "sorted", "sum", "any", "all", "max", "min", "dict", "next")
                    or (isinstance(par.func, ast.Attribute) and par.func.attr in ("extend", "join", "update")))
                if isinstance(d, ast.Lambda) and isinstance(par, ast.keyword) and par.arg == "key":
                    consumed = True
                if consumed:
                    continue
                own: Set[str] = set()
                if isinstance(d, ast.GeneratorExp):
                    for g in d.generators:
                        own |= {x.id for x in ast.walk(g.target) if isinstance(x, ast.Name)}
                    # the first iterable is evaluated at once; everything else later
                    later = [d.elt] + [c for g in d.generators for c in g.ifs] + [g.iter for g in d.generators[1:]]
                else:
                    a = d.args
                    own |= {p.arg for p in a.posonlyargs + a.args + a.kwonlyargs}
                    later = [d.body] if isinstance(d, ast.Lambda) else list(d.body)
                for e in later:
                    for x in ast.walk(e):
                        if isinstance(x, ast.Name) and isinstance(x.ctx, ast.Load) and x.id in bound and x.id not in own:
                            out.append((lp, d, x.id))
    return out


def rule_late1(ctx: Ctx) -> RuleResult:
    rr = RuleResult("LATE-1", "nothing created in a loop and used later reads the loop's variables", floor=1)
    ctl = ast.parse("def f(items):\n    out = []\n    for name, lookup in items:\n        out.append((x[lookup] for x in load(name)))\n"
                    "        out.extend(y for y in load(lookup))\n    return out\n")
    if len(late_bound(ctl)) != 1:
        raise AnalysisError("LATE-1: positive control failed")
    st = ("a generator expression, lambda or nested function made inside a loop and kept for later sees the loop variables as they "
          "are when it finally runs (the values of the LAST iteration), not as they were when it was made")
    mods = [ctx.prog.module(CLI), ctx.prog.module("json_to_models/generator.py"), ctx.prog.module("json_to_models/registry.py"),
            ctx.prog.module(BASE), ctx.prog.module("json_to_models/models/structure.py")]
    for m in mods:
        seen = set()
        for lp, d, v in late_bound(m.tree):
            if (id(d), v) in seen:
                continue
            seen.add((id(d), v))
            rr.instances += 1
            fn = next((f for f in m.all_funcs if any(d is y for y in ast.walk(f.node))), None)
            rr.ob(m.relpath, fn.qualname if fn else "<module>", norm(d)[:80], st, VIOLATED,
                  f"`{norm(d)[:50]}` reads `{v}`, which the enclosing loop rebinds on every iteration, and is not consumed where it "
                  f"is created: every deferred object ends up using the last value", d.lineno)
    rr.instances += 1
    rr.ob("json_to_models", "<package>", f"{len(mods)} modules", st, DISCHARGED, "no late-bound loop variable (positive control matched)", 1)
    return rr


# ---------------------------------------------------------------------------------------------------------------
def rule_convnum1(ctx: Ctx) -> RuleResult:
    rr = RuleResult("CONVNUM-1", "`percent_N` on the command line is the library's threshold N / 100, bit for bit", floor=1)
    cli = ctx.prog.cls(CLI, "Cli")
    table = cli.assigns.get("MODEL_CMP_MAPPING")
    if not isinstance(table, ast.Dict):
        raise AnalysisError("CONVNUM-1: Cli.MODEL_CMP_MAPPING is not a dict literal")
    found = False
    for k, v in zip(table.keys, table.values):
        if not (isinstance(k, ast.Constant) and k.value == "percent"):
            continue
        found = True
        rr.instances += 1
        convs = [a for a in (v.args[1:] if isinstance(v, ast.Call) else [])]
        st = ("the threshold built from `percent_N` equals the float N / 100 that a library user would write: the quotient is "
              "correctly rounded, a product with 0.01 (or a branch on the size of N) is a different number for some N")
        if not convs:
            rr.ob(CLI, "Cli.MODEL_CMP_MAPPING['percent']", norm(v)[:70], st, VIOLATED, "no converter for the percentage", v.lineno)
            continue
        c = convs[0]
        body = c.body if isinstance(c, ast.Lambda) else None
        ok = body is not None and isinstance(body, ast.BinOp) and isinstance(body.op, ast.Div) and \
            isinstance(body.right, ast.Constant) and body.right.value == 100 and isinstance(body.left, ast.Call) and \
            norm(body.left.func) in ("float", "int", "Decimal", "Fraction")
        rr.ob(CLI, "Cli.MODEL_CMP_MAPPING['percent']", norm(c)[:70], st, DISCHARGED if ok else VIOLATED,
              "float(s) / 100" if ok else
              f"`{norm(c)[:50]}` is not the plain quotient by 100: for some N the threshold differs from N / 100 "
              f"(70 * 0.01 == 0.7000000000000001), or small N are read as fractions", v.lineno)
    if not found:
        raise AnalysisError("CONVNUM-1: policy `percent` not in MODEL_CMP_MAPPING")
    return rr


# ---------------------------------------------------------------------------------------------------------------
def rule_arity1(ctx: Ctx) -> RuleResult:
    rr = RuleResult("ARITY-1", "a --model argument with a wrong number of parts is an error", floor=1)
    f = ctx.prog.func(CLI, "Cli.setup_models_data")
    mod = f.module
    rr.instances += 1
    st = ("`-m` takes <name> [<lookup>] <path>: a tuple of any other length raises instead of being cut or padded (an invalid "
          "argument must fail the run)")
    stars = [n for n in walk_no_nested(f.node) if isinstance(n, ast.Assign) and isinstance(n.targets[0], (ast.Tuple, ast.List))
             and any(isinstance(e, ast.Starred) for e in n.targets[0].elts)]
    lens = [n for n in walk_no_nested(f.node) if isinstance(n, ast.If) and "len(" in norm(n.test)]
    raises_else = False
    for n in lens:
        # walk the elif chain to its final else
        cur = n
        while cur.orelse and len(cur.orelse) == 1 and isinstance(cur.orelse[0], ast.If):
            cur = cur.orelse[0]
        if cur.orelse and any(isinstance(x, ast.Raise) for s_ in cur.orelse for x in ast.walk(s_)):
            raises_else = True
    bounded_star = False
    for s_ in stars:
        # star-unpacking is fine only if the length of the starred part is checked afterwards
        sv = next(norm(e.value) for e in s_.targets[0].elts if isinstance(e, ast.Starred))
        bounded_star = any(isinstance(n, ast.If) and f"len({sv})" in norm(n.test) and any(isinstance(x, ast.Raise) for x in ast.walk(n))
                           for n in walk_no_nested(f.node))
    # a length test on the whole tuple that raises, placed before the unpacking, bounds the starred part as well
    if stars and not bounded_star:
        for n in walk_no_nested(f.node):
            if isinstance(n, ast.If) and "len(" in norm(n.test) and n.lineno < stars[0].lineno and \
                    any(isinstance(x, ast.Raise) for s_ in n.body for x in ast.walk(s_)):
                bounded_star = True
    ok = (raises_else and not stars) or (stars and bounded_star)
    rr.ob(f.relpath, f.qualname, norm(stars[0])[:70] if stars else (norm(lens[0].test)[:70] if lens else "model tuples"), st,
          DISCHARGED if ok else VIOLATED,
          "lengths 2 and 3 are handled, anything else raises" if ok else
          ("star-unpacking swallows the surplus parts of the argument: `-m Model items other data.json` is accepted and `other` "
           "silently dropped" if stars else "no branch rejects a tuple of a wrong length"), f.node.lineno)
    return rr


# ---------------------------------------------------------------------------------------------------------------
ARGPARSER_KW_OK = {"description", "formatter_class", "prog", "epilog", "usage", "add_help", "allow_abbrev", "exit_on_error", "parents"}


def rule_argp1(ctx: Ctx) -> RuleResult:
    rr = RuleResult("ARGP-1", "the argument parser takes every command-line element literally", floor=1)
    f = ctx.prog.func(CLI, "Cli._create_argparser")
    ctors = [n for n in walk_no_nested(f.node) if isinstance(n, ast.Call) and norm(n.func).split(".")[-1] == "ArgumentParser"]
    if len(ctors) != 1:
        raise AnalysisError(f"ARGP-1: expected one ArgumentParser(...) in _create_argparser, found {len(ctors)}")
    c = ctors[0]
    rr.instances += 1
    extra = [k.arg for k in c.keywords if k.arg and k.arg not in ARGPARSER_KW_OK]
    rr.ob(f.relpath, f.qualname, norm(c)[:80], "no parser option rewrites arguments before they are parsed: a value starting with "
          "`@` (a decorator line in --preamble, the JSON-LD key @context) is that value, not the name of a file to read "
          "arguments from", DISCHARGED if not extra else VIOLATED,
          "plain parser" if not extra else
          f"{', '.join(extra)}: argparse then replaces / re-reads some arguments instead of passing them on as typed", c.lineno)
    return rr


# ---------------------------------------------------------------------------------------------------------------
def rule_empty1(ctx: Ctx) -> RuleResult:
    rr = RuleResult("EMPTY-1", "a class whose fields are all filtered away still gets a body", floor=1)
    prog = ctx.prog
    base = prog.cls(BASE, "GenericModelCodeGenerator")
    body = base.assigns.get("BODY")
    rr.instances += 1
    st = ("`pass` is emitted exactly when no field line is emitted: the decision looks at the rendered field list (after the "
          "framework's filter, e.g. pydantic dropping fields that were only ever null), not at the model's raw fields")
    txt = ""
    if body is not None:
        for x in ast.walk(body):
            if isinstance(x, ast.Constant) and isinstance(x.value, str):
                txt += x.value
    in_template = "pass" in txt and ("if fields" in txt or "if not fields" in txt or "else" in txt and "for field in fields" in txt)
    fp = base.methods.get("fields", [None])[0]
    if fp is None:
        raise AnalysisError("EMPTY-1: GenericModelCodeGenerator.fields vanished")
    # a `pass` produced in code: must come after the filter and be conditioned on the filtered / rendered list
    code_pass = [n for n in walk_no_nested(fp.node) if isinstance(n, ast.Constant) and n.value == "pass"]
    why = ""
    ok = in_template and not code_pass
    if code_pass and not in_template:
        n0 = code_pass[0]
        iff = None
        p = fp.module.parents.get(n0)
        while p is not None and p is not fp.node:
            if isinstance(p, ast.If):
                iff = p
                break
            p = fp.module.parents.get(p)
        filt = [c for c in walk_no_nested(fp.node) if isinstance(c, ast.Call) and norm(c.func).endswith("_filter_fields")]
        after = iff is not None and filt and all(c.lineno < iff.lineno for c in filt)
        tested = {x.id for x in ast.walk(iff.test) if isinstance(x, ast.Name)} if iff is not None else set()
        rendered = {norm(t) for n in walk_no_nested(fp.node) if isinstance(n, ast.Call) and isinstance(n.func, ast.Attribute)
                    and n.func.attr == "append" for t in [n.func.value]}
        ok = bool(after) and bool(tested & rendered)
        why = (f"`pass` is chosen under `{norm(iff.test)[:40] if iff is not None else '?'}`, " +
               ("before the framework filter runs" if not after else "on a list that is not the rendered one") +
               ": a pydantic model whose fields were all only ever null gets an empty class body (IndentationError)")
    elif not in_template and not code_pass:
        why = "no `pass` for an empty class body at all"
    rr.ob(fp.relpath, fp.qualname, "pass for an empty body", st, DISCHARGED if ok else VIOLATED,
          "decided by the template on the list of rendered fields" if ok and in_template else ("decided after the filter" if ok else why),
          fp.node.lineno)
    return rr


# ---------------------------------------------------------------------------------------------------------------
def rule_constesc1(ctx: Ctx) -> RuleResult:
    rr = RuleResult("CONSTESC-1", "class-level mutable constants do not escape to callers that extend what they receive", floor=1)
    prog = ctx.prog
    n = 0
    st = ("a method whose overrides append to / assign into the value they get from super() returns a fresh object on every "
          "call; returning one class-level list, dict or tuple-of-those makes every generator of the process share it")

    def mutable(v) -> bool:
        if isinstance(v, (ast.List, ast.Dict, ast.Set)):
            return True
        if isinstance(v, ast.Tuple):
            return any(mutable(e) for e in v.elts)
        if isinstance(v, ast.Call) and norm(v.func) in ("list", "dict", "set", "defaultdict"):
            return True
        return False

    for c in sorted(prog.all_classes(), key=lambda k: k.qualname):
        consts = {name for name, v in c.assigns.items() if mutable(v)}
        if not consts:
            continue
        for k in prog.subclasses(c):
            for ms in k.methods.values():
                for f in ms:
                    for r in walk_no_nested(f.node):
                        if isinstance(r, ast.Return) and r.value is not None:
                            for x in ast.walk(r.value):
                                if isinstance(x, ast.Attribute) and x.attr in consts and isinstance(x.value, ast.Name) and \
                                        x.value.id in ("self", "cls", c.name):
                                    # directly returned (not copied)
                                    par = f.module.parents.get(x)
                                    copied = isinstance(par, ast.Call) and x in par.args and norm(par.func) in (
                                        "copy.deepcopy", "deepcopy", "dict", "list", "set", "copy.copy", "tuple", "sorted")
                                    n += 1
                                    rr.instances += 1
                                    rr.ob(f.relpath, f.qualname, norm(r)[:70], st, DISCHARGED if copied else VIOLATED,
                                          "a copy is returned" if copied else
                                          f"`{norm(x)}` (a class-level {type(c.assigns[x.attr]).__name__.lower()}) is returned as it is: an "
                                          f"override that does `imports.append(...)` / `kwargs[...] = ...` on the result changes it for "
                                          f"every later generation", r.lineno)
    rr.instances += 1
    rr.ob("json_to_models", "<package>", "class-level mutable constants", st, DISCHARGED,
          f"{n} returns of class-level constants inspected", 1)
    return rr


# ---------------------------------------------------------------------------------------------------------------
def rule_exitcm1(ctx: Ctx) -> RuleResult:
    rr = RuleResult("EXITCM-1", "no context manager of the package suppresses exceptions", floor=1)
    n = 0
    st = ("`__exit__` returns None (or False) on every path: a truthy return value makes the `with` statement swallow whatever "
          "was raised inside it, so a failed generation would end as a successful run")
    for f in sorted(ctx.prog.all_funcs(), key=lambda x: x.key):
        if f.name != "__exit__":
            continue
        n += 1
        rr.instances += 1
        rets = [r for r in walk_no_nested(f.node) if isinstance(r, ast.Return) and r.value is not None]
        bad = [r for r in rets if not (isinstance(r.value, ast.Constant) and r.value.value in (None, False))]
        rr.ob(f.relpath, f.qualname, norm(bad[0])[:60] if bad else "__exit__", st, VIOLATED if bad else DISCHARGED,
              f"`{norm(bad[0])[:50]}` can be truthy (a non-empty mapping, an object): exceptions raised in the block disappear"
              if bad else "returns nothing", f.node.lineno)
    # generator-based context managers: a bare `except` around the yield without re-raise
    if n < 1:
        raise AnalysisError("EXITCM-1: no __exit__ found (AbsoluteModelRef.Context expected)")
    return rr


# ---------------------------------------------------------------------------------------------------------------
def memo_key_gaps(tree: ast.AST) -> List[Tuple[ast.AST, str, Set[str]]]:
    """(store statement, memo name, variables the stored value depends on but the key does not mention) for the patterns
    `if K not in D: D[K] = E`, `D[K] = E` next to `D.get(K)` / `K in D`, and `D.setdefault(K, E)`."""
    out = []
    for fn in ast.walk(tree):
        if not isinstance(fn, (ast.FunctionDef, ast.AsyncFunctionDef)):
            continue
        params = {a.arg for a in fn.args.posonlyargs + fn.args.args + fn.args.kwonlyargs} - {"self", "cls"}
        # names that change between the evaluations the memo is meant to save: loop variables and names assigned in loops
        varying: Set[str] = set()
        for lp in ast.walk(fn):
            if isinstance(lp, ast.For):
                varying |= {x.id for x in ast.walk(lp.target) if isinstance(x, ast.Name)}
                for s_ in lp.body:
                    for x in ast.walk(s_):
                        if isinstance(x, ast.Name) and isinstance(x.ctx, ast.Store):
                            varying.add(x.id)
        # memo dictionaries: subscript-stored and looked up (in / get / subscript load) in the same function
        looked: Dict[str, List[ast.AST]] = {}
        for n in ast.walk(fn):
            if isinstance(n, ast.Compare) and len(n.ops) == 1 and isinstance(n.ops[0], (ast.In, ast.NotIn)):
                looked.setdefault(norm(n.comparators[0]), []).append(n.left)
            if isinstance(n, ast.Call) and isinstance(n.func, ast.Attribute) and n.func.attr == "get" and n.args:
                looked.setdefault(norm(n.func.value), []).append(n.args[0])
        for n in ast.walk(fn):
            store = key = val = None
            if isinstance(n, ast.Assign):
                for t in n.targets:
                    if isinstance(t, ast.Subscript) and norm(t.value) in looked:
                        store, key, val = norm(t.value), t.slice, n.value
            if isinstance(n, ast.Call) and isinstance(n.func, ast.Attribute) and n.func.attr == "setdefault" and len(n.args) == 2 \
                    and isinstance(n.args[1], ast.Call):
                store, key, val = norm(n.func.value), n.args[0], n.args[1]
            if store is None or not any(isinstance(x, ast.Call) for x in ast.walk(val)):
                continue
            # a fresh local dict filled in a loop over the items of another mapping: every key comes once, nothing is looked up again
            if "." not in store and any(isinstance(d, ast.Assign) and any(isinstance(t, ast.Name) and t.id == store for t in d.targets)
                                        and isinstance(d.value, ast.Dict) and not d.value.keys for d in ast.walk(fn)):
                lp = next((l_ for l_ in ast.walk(fn) if isinstance(l_, ast.For) and any(n is y for y in ast.walk(l_))), None)
                if lp is not None and isinstance(lp.iter, ast.Call) and isinstance(lp.iter.func, ast.Attribute) and lp.iter.func.attr == "items" \
                        and norm(lp.iter.func.value) != store and isinstance(lp.target, ast.Tuple) and norm(lp.target.elts[0]) == norm(key):
                    continue
            if isinstance(n, ast.Assign):
                # a memo store is conditional on the key being absent; an unconditional `D[k] = f(D.get(k), x)` is an update
                guarded = False
                par_map = {c: p for p in ast.walk(fn) for c in ast.iter_child_nodes(p)}
                q = par_map.get(n)
                while q is not None and q is not fn:
                    if isinstance(q, ast.If):
                        t_ = norm(q.test)
                        if (" not in " + store) in t_ or t_.endswith(" is None") or t_.endswith(" is Ellipsis") or \
                                t_.endswith(" is ...") or "_MISSING" in t_ or t_.startswith("not "):
                            guarded = True
                    if isinstance(q, ast.ExceptHandler) and q.type is not None and "KeyError" in norm(q.type):
                        guarded = True
                    q = par_map.get(q)
                if not guarded:
                    continue
            # memo across calls (store lives on self / module): parameters vary too
            v_names = {x.id for x in ast.walk(val) if isinstance(x, ast.Name) and isinstance(x.ctx, ast.Load)}
            k_names = {x.id for x in ast.walk(key) if isinstance(x, ast.Name)}
            # one level of local definitions for the key (key = (a, b))
            for d in ast.walk(fn):
                if isinstance(d, ast.Assign) and any(isinstance(t, ast.Name) and t.id in k_names for t in d.targets):
                    k_names |= {x.id for x in ast.walk(d.value) if isinstance(x, ast.Name)}
            vary = set(varying)
            if store.startswith("self.") or "." not in store and store not in {x.id for x in ast.walk(fn) if isinstance(x, ast.Name) and isinstance(x.ctx, ast.Store)}:
                vary |= params
            gap = (v_names & vary) - k_names - {store.split(".")[0]}
            # a local that holds the current entry (`cur = D[k]` ... `D[k] = f(cur)`): the statement updates an entry, the value
            # depends on the table itself, not on something the key leaves out
            for d in ast.walk(fn):
                if isinstance(d, ast.Assign) and len(d.targets) == 1 and isinstance(d.targets[0], ast.Name) and d.targets[0].id in gap:
                    v_ = d.value
                    if (isinstance(v_, ast.Subscript) and norm(v_.value) == store and norm(v_.slice) == norm(key)) or (
                            isinstance(v_, ast.Call) and isinstance(v_.func, ast.Attribute) and v_.func.attr == "get"
                            and norm(v_.func.value) == store and v_.args and norm(v_.args[0]) == norm(key)):
                        gap = gap - {d.targets[0].id}
            if gap:
                out.append((n, store, gap))
    return out


def rule_memokey1(ctx: Ctx) -> RuleResult:
    rr = RuleResult("MEMOKEY-1", "a memo is keyed by everything its stored value depends on", floor=1)
    ctl = ast.parse("def f(items, parser):\n    loaded = {}\n    out = []\n    for name, lookup, path in items:\n        if path not in loaded:\n"
                    "            loaded[path] = list(extract(parser(path), lookup))\n        out.extend(loaded[path])\n"
                    "        k = (path, lookup)\n        if k not in loaded:\n            loaded[k] = list(extract(parser(path), lookup))\n    return out\n")
    got = memo_key_gaps(ctl)
    if len(got) != 1 or got[0][2] != {"lookup"}:
        raise AnalysisError(f"MEMOKEY-1: positive control failed ({[(g[1], g[2]) for g in got]})")
    st = ("a value looked up in a memo is the value that would have been computed: the key mentions every variable of the "
          "memoised expression that changes between the evaluations the memo spans")
    mods = [m for m in ctx.prog.pkg_modules()]
    for m in mods:
        for n, store, gap in memo_key_gaps(m.tree):
            # the per-instance label cache of cached_method is judged by CACHE-2
            fn = next((f for f in m.all_funcs if any(n is y for y in ast.walk(f.node))), None)
            if fn is not None and fn.qualname.startswith("cached_"):
                continue
            rr.instances += 1
            rr.ob(m.relpath, fn.qualname if fn else "<module>", norm(n)[:80], st, VIOLATED,
                  f"the value stored in `{store}` also depends on {sorted(gap)}, which the key leaves out: a later lookup with another "
                  f"{sorted(gap)[0]} gets the value computed for the first one", n.lineno)
    rr.instances += 1
    rr.ob("json_to_models", "<package>", f"{len(mods)} modules", st, DISCHARGED, "every memo key covers its value (positive control matched)", 1)
    return rr


# ---------------------------------------------------------------------------------------------------------------
def unpaired_acquires(tree: ast.AST) -> List[Tuple[ast.AST, str]]:
    """`X.acquire()` as a statement whose matching `X.release()` is not in the `finally` of a try that starts right after it."""
    out = []
    for fn in ast.walk(tree):
        if not isinstance(fn, (ast.FunctionDef, ast.AsyncFunctionDef)):
            continue
        for blk in ast.walk(fn):
            for fld in ("body", "orelse", "finalbody"):
                body = getattr(blk, fld, None)
                if not isinstance(body, list):
                    continue
                for i, st in enumerate(body):
                    if isinstance(st, ast.Expr) and isinstance(st.value, ast.Call) and isinstance(st.value.func, ast.Attribute) \
                            and st.value.func.attr == "acquire":
                        lock = norm(st.value.func.value)
                        nxt = body[i + 1] if i + 1 < len(body) else None
                        ok = isinstance(nxt, ast.Try) and any(
                            isinstance(x, ast.Call) and isinstance(x.func, ast.Attribute) and x.func.attr == "release"
                            and norm(x.func.value) == lock for s_ in nxt.finalbody for x in ast.walk(s_))
                        if not ok:
                            out.append((st, lock))
    return out


def rule_lock1(ctx: Ctx) -> RuleResult:
    rr = RuleResult("LOCK-1", "every lock taken on a generation path is released on every way out", floor=1)
    ctl = ast.parse("import threading\nL = threading.Lock()\ndef f():\n    L.acquire()\n    g()\n    L.release()\ndef h():\n    L.acquire()\n"
                    "    try:\n        g()\n    finally:\n        L.release()\n")
    if len(unpaired_acquires(ctl)) != 1:
        raise AnalysisError("LOCK-1: positive control failed")
    st = ("a lock is held through `with`, or acquire() is followed at once by try/finally with the release: otherwise one "
          "generation that raises leaves the lock taken and every later generation, in any thread, blocks for ever")
    n = 0
    for m in ctx.prog.pkg_modules():
        n += 1
        for stmt, lock in unpaired_acquires(m.tree):
            rr.instances += 1
            fn = next((f for f in m.all_funcs if any(stmt is y for y in ast.walk(f.node))), None)
            rr.ob(m.relpath, fn.qualname if fn else "<module>", norm(stmt)[:60], st, VIOLATED,
                  f"`{lock}.acquire()` is not followed by try/finally releasing it: an exception between acquire and release keeps "
                  f"`{lock}` locked", stmt.lineno)
    rr.instances += 1
    rr.ob("json_to_models", "<package>", f"{n} modules", st, DISCHARGED, "no unpaired acquire() (positive control matched)", 1)
    return rr


# ---------------------------------------------------------------------------------------------------------------
ONE_SHOT_CALLS = ("map", "filter", "zip", "iter", "reversed", "enumerate", "itertools.chain", "glob", "iglob", "rglob")
CONSUMERS = ("any", "all", "list", "tuple", "set", "sorted", "sum", "max", "min", "next", "len", "dict", "frozenset")


def double_consumption(ctx: Ctx, f: FuncInfo) -> List[Tuple[str, ast.AST, ast.AST]]:
    """(name, first use, second use): a local bound to a one-shot iterator (generator expression, map/filter/..., a call of a
    repository function that can return a generator or a glob) that is consumed in two places."""
    out = []
    mod = f.module

    def one_shot(v) -> bool:
        if isinstance(v, ast.GeneratorExp):
            return True
        if isinstance(v, ast.Call):
            fn = norm(v.func)
            if fn in ONE_SHOT_CALLS or fn.split(".")[-1] in ("glob", "iglob", "rglob", "iterdir"):
                return True
            for t in ctx.cg.resolve_call(f, mod, v):
                if isinstance(t, FuncInfo):
                    if any(isinstance(x, (ast.Yield, ast.YieldFrom)) for x in walk_no_nested(t.node)):
                        return True
                    for r in walk_no_nested(t.node):
                        if isinstance(r, ast.Return) and r.value is not None and isinstance(r.value, ast.Call) and \
                                norm(r.value.func).split(".")[-1] in ("glob", "iglob", "rglob", "iterdir", "map", "filter"):
                            return True
        return False

    for n in walk_no_nested(f.node):
        if isinstance(n, ast.Assign) and len(n.targets) == 1 and isinstance(n.targets[0], ast.Name) and one_shot(n.value):
            name = n.targets[0].id
            # other definitions make it ambiguous: skip
            defs = [d for d in walk_no_nested(f.node) if isinstance(d, (ast.Assign, ast.AugAssign)) and any(
                isinstance(t, ast.Name) and t.id == name for t in (d.targets if isinstance(d, ast.Assign) else [d.target]))]
            if len(defs) != 1:
                continue
            uses = []
            for u in walk_no_nested(f.node):
                if isinstance(u, ast.For) and isinstance(u.iter, ast.Name) and u.iter.id == name:
                    uses.append(u)
                elif isinstance(u, ast.comprehension) and isinstance(u.iter, ast.Name) and u.iter.id == name:
                    uses.append(u)
                elif isinstance(u, ast.Call) and (norm(u.func) in CONSUMERS or (isinstance(u.func, ast.Attribute) and u.func.attr in ("extend", "join", "update"))) \
                        and any(isinstance(a, ast.Name) and a.id == name for a in u.args):
                    uses.append(u)
                elif isinstance(u, ast.Starred) and isinstance(u.value, ast.Name) and u.value.id == name:
                    uses.append(u)
            if len(uses) >= 2:
                uses.sort(key=lambda x: getattr(x, "lineno", 0))
                out.append((name, uses[0], uses[1]))
    return out


def rule_iter2(ctx: Ctx) -> RuleResult:
    rr = RuleResult("ITER-2", "no one-shot iterator is consumed twice", floor=1)
    st = ("an iterator (a generator, a glob, map / filter) gives its elements once: testing it with any() / list() / len() before "
          "the loop that is meant to process it takes elements away from that loop")
    n = 0
    for f in sorted(set(ctx.lib_cone) | set(ctx.cli_cone), key=lambda x: x.key):
        n += 1
        for name, u1, u2 in double_consumption(ctx, f):
            rr.instances += 1
            rr.ob(f.relpath, f.qualname, norm(u1)[:60], st, VIOLATED,
                  f"`{name}` holds a one-shot iterator and is consumed by `{norm(u1)[:40]}` (line {u1.lineno}) and again at line "
                  f"{getattr(u2, 'lineno', '?')}: the second consumer misses what the first one took (the first matched file, for a "
                  f"path pattern)", u1.lineno)
    rr.instances += 1
    rr.ob("json_to_models", "<package>", f"{n} functions", st, DISCHARGED, "no iterator is consumed twice", 1)
    if n < 50:
        raise AnalysisError(f"ITER-2: only {n} functions in scope")
    return rr


# ---------------------------------------------------------------------------------------------------------------
def rule_tmp1(ctx: Ctx) -> RuleResult:
    rr = RuleResult("TMP-1", "files written besides the requested output have names no concurrent run can share", floor=1)
    run = ctx.prog.func(CLI, "Cli.run")
    mod = run.module
    st = ("the only file the command line writes is the one named by -o; an intermediate file, if any, gets its name from "
          "tempfile (unique per call), not from the process id, a constant or the target's directory alone")
    rr.instances += 1
    bad = []
    for f in sorted(ctx.cli_cone, key=lambda x: x.key):
        if not f.relpath.endswith("cli.py"):
            continue
        for n in walk_no_nested(f.node):
            if isinstance(n, ast.Call) and norm(n.func) in ("open", "io.open", "os.replace", "os.rename", "shutil.move") and n.args:
                a0 = n.args[0]
                mode = norm(n.args[1]) if len(n.args) > 1 else next((norm(k.value) for k in n.keywords if k.arg == "mode"), "'r'")
                writes = norm(n.func) not in ("open", "io.open") or any(c in mode for c in "wax+")
                if not writes:
                    continue
                txt = norm(a0)
                if txt in ("self.output_file",):
                    continue
                # a local: where does it come from?
                src = txt
                if isinstance(a0, ast.Name):
                    ds = [d for d in walk_no_nested(f.node) if isinstance(d, ast.Assign) and norm(d.targets[0]) == a0.id]
                    src = " ; ".join(norm(d.value) for d in ds)
                if "tempfile." in src or "mkstemp" in src or "NamedTemporaryFile" in src:
                    continue
                bad.append((f, n, src))
    if bad:
        f, n, src = bad[0]
        rr.ob(f.relpath, f.qualname, norm(n)[:70], st, VIOLATED,
              f"`{norm(n)[:50]}` writes / moves `{src[:60]}`: the name is the same for every run of this process (os.getpid(), a "
              f"constant), so two runs in two threads overwrite each other's intermediate file", n.lineno)
    else:
        rr.ob(run.relpath, run.qualname, "open(self.output_file, 'w')", st, DISCHARGED, "only the requested output file is written", run.node.lineno)
    return rr


# ---------------------------------------------------------------------------------------------------------------
LAZY_LOADERS = ("load_all", "safe_load_all", "iterparse", "iter_lines", "readline")


def rule_load4(ctx: Ctx) -> RuleResult:
    rr = RuleResult("LOAD-4", "every input loader parses the whole file", floor=2)
    mod = ctx.prog.module(CLI)
    loaders = ctx.prog.cls(CLI, "FileLoaders")
    funcs = [f for ms in loaders.methods.values() for f in ms] + [f for f in mod.all_funcs if f.cls is None and f.parent is None
                                                                    and ("load" in f.name or "yaml" in f.name)]
    st = ("a loader returns only after the complete file has been parsed, so that malformed input anywhere in it fails the run: "
          "a lazy multi-document API whose first result is taken stops reading at the first document")
    for f in sorted(funcs, key=lambda x: x.key):
        rr.instances += 1
        lazy = [n for n in ast.walk(f.node) if isinstance(n, ast.Call) and isinstance(n.func, ast.Attribute) and n.func.attr in LAZY_LOADERS]
        bad = None
        for n in lazy:
            # fully consumed? list(...), for-loop, tuple(...)
            par = mod.parents.get(n)
            drained = isinstance(par, ast.Call) and norm(par.func) in ("list", "tuple") or isinstance(par, ast.For) and par.iter is n
            if not drained:
                bad = n
        rr.ob(f.relpath, f.qualname, norm(bad)[:60] if bad is not None else f.name, st, VIOLATED if bad is not None else DISCHARGED,
              f"`{norm(bad)[:50]}` is lazy and is not drained: everything after the first document is never parsed, a broken second "
              f"document passes" if bad is not None else "whole-stream loader", f.node.lineno)
    return rr



# ---------------------------------------------------------------------------------------------------------------
def rule_cacheinv1(ctx: Ctx) -> RuleResult:
    """CACHEINV-1: a lazily built view of an object's own collection is dropped by every method that changes the collection."""
    rr = RuleResult("CACHEINV-1", "a cached view is invalidated by every mutator of what it was built from", floor=1)
    prog = ctx.prog
    n_caches = 0
    for c in sorted(prog.all_classes(), key=lambda k: k.qualname):
        inits = c.methods.get("__init__", [])
        if not inits:
            continue
        none_attrs = {t.attr for n in walk_no_nested(inits[0].node) if isinstance(n, (ast.Assign, ast.AnnAssign)) and getattr(n, "value", None) is not None
                      and isinstance(n.value, ast.Constant) and n.value.value is None
                      for t in (n.targets if isinstance(n, ast.Assign) else [n.target])
                      if isinstance(t, ast.Attribute) and isinstance(t.value, ast.Name) and t.value.id == "self"}
        for ms in c.methods.values():
            for f in ms:
                for iff in walk_no_nested(f.node):
                    if not (isinstance(iff, ast.If) and isinstance(iff.test, ast.Compare) and isinstance(iff.test.ops[0], ast.Is)
                            and norm(iff.test.comparators[0]) == "None" and isinstance(iff.test.left, ast.Attribute)
                            and norm(iff.test.left.value) == "self" and iff.test.left.attr in none_attrs):
                        continue
                    cache = iff.test.left.attr
                    builds = [s_ for s_ in iff.body if isinstance(s_, ast.Assign) and norm(s_.targets[0]) == f"self.{cache}"]
                    if not builds:
                        continue
                    sources = {x.attr for x in ast.walk(builds[0].value) if isinstance(x, ast.Attribute) and norm(x.value) == "self"
                               and x.attr != cache}
                    if not sources:
                        continue
                    n_caches += 1
                    # every function of the class (nested helpers included) that changes a source resets the cache
                    for g in [h for h in c.module.all_funcs if h.cls is c or (h.parent is not None and ctx.effects._owner(h) is c)]:
                        if g.name == "__init__" or g is f:
                            continue
                        muts = []
                        for x in walk_no_nested(g.node):
                            if isinstance(x, ast.Call) and isinstance(x.func, ast.Attribute) and x.func.attr in MUTATORS and \
                                    isinstance(x.func.value, ast.Attribute) and norm(x.func.value.value) == "self" and x.func.value.attr in sources:
                                muts.append(x)
                            if isinstance(x, (ast.Assign, ast.AugAssign)):
                                for t in (x.targets if isinstance(x, ast.Assign) else [x.target]):
                                    if isinstance(t, ast.Attribute) and norm(t.value) == "self" and t.attr in sources:
                                        muts.append(x)
                        if not muts:
                            continue
                        rr.instances += 1
                        top = g
                        while top.parent is not None:
                            top = top.parent
                        resets = any(isinstance(x, ast.Assign) and norm(x.targets[0]) == f"self.{cache}" and norm(x.value) == "None"
                                     for h in (g, top) for x in ast.walk(h.node))
                        rr.ob(g.relpath, g.qualname, norm(muts[0])[:60], f"`self.{cache}` of {c.name} is a view of {sorted(sources)}: a "
                              f"method that changes them drops the view, so that the next question is answered from the new content",
                              DISCHARGED if resets else VIOLATED,
                              "view dropped" if resets else
                              f"`{norm(muts[0])[:40]}` changes the source but `self.{cache}` is kept: later lookups answer from the old "
                              f"content (a type registered afterwards is detected but is not `in` the registry)", muts[0].lineno)
        # second form: a memo table `self.X = {}` filled and consulted by one method (self.X[k] = v / self.X.get(k) / k in self.X)
        dict_attrs = {t.attr for n in walk_no_nested(inits[0].node) if isinstance(n, (ast.Assign, ast.AnnAssign)) and getattr(n, "value", None) is not None
                      and (isinstance(n.value, ast.Dict) and not n.value.keys or isinstance(n.value, ast.Call) and norm(n.value.func) in
                           ("dict", "OrderedDict", "collections.OrderedDict", "defaultdict", "collections.defaultdict", "WeakKeyDictionary"))
                      for t in (n.targets if isinstance(n, ast.Assign) else [n.target])
                      if isinstance(t, ast.Attribute) and isinstance(t.value, ast.Name) and t.value.id == "self"}
        for ms in c.methods.values():
            for f in ms:
                if f.name == "__init__":
                    continue
                for memo in sorted(dict_attrs):
                    stores = [x for x in walk_no_nested(f.node) if isinstance(x, ast.Assign) and isinstance(x.targets[0], ast.Subscript)
                              and norm(x.targets[0].value) == f"self.{memo}"]
                    reads = [x for x in walk_no_nested(f.node) if (isinstance(x, ast.Call) and norm(x.func) == f"self.{memo}.get") or
                             (isinstance(x, ast.Compare) and isinstance(x.ops[0], (ast.In, ast.NotIn)) and norm(x.comparators[0]) == f"self.{memo}")
                             or (isinstance(x, ast.Subscript) and isinstance(x.ctx, ast.Load) and norm(x.value) == f"self.{memo}")]
                    if not (stores and reads):
                        continue
                    sources = {x.attr for x in walk_no_nested(f.node) if isinstance(x, ast.Attribute) and norm(x.value) == "self"
                               and x.attr != memo and isinstance(x.ctx, ast.Load) and x.attr not in c.methods}
                    if not sources:
                        continue
                    n_caches += 1
                    for g in [h for h in c.module.all_funcs if h.cls is c or (h.parent is not None and ctx.effects._owner(h) is c)]:
                        if g.name == "__init__" or g is f:
                            continue
                        muts = []
                        for x in walk_no_nested(g.node):
                            if isinstance(x, ast.Call) and isinstance(x.func, ast.Attribute) and x.func.attr in MUTATORS and \
                                    isinstance(x.func.value, ast.Attribute) and norm(x.func.value.value) == "self" and x.func.value.attr in sources:
                                muts.append(x)
                            if isinstance(x, (ast.Assign, ast.AugAssign)):
                                for t in (x.targets if isinstance(x, ast.Assign) else [x.target]):
                                    if isinstance(t, ast.Attribute) and norm(t.value) == "self" and t.attr in sources:
                                        muts.append(x)
                        if not muts:
                            continue
                        rr.instances += 1
                        top = g
                        while top.parent is not None:
                            top = top.parent
                        resets = any((isinstance(x, ast.Call) and norm(x.func) == f"self.{memo}.clear") or
                                     (isinstance(x, ast.Assign) and norm(x.targets[0]) == f"self.{memo}")
                                     for h in (g, top) for x in ast.walk(h.node))
                        rr.ob(g.relpath, g.qualname, norm(muts[0])[:60], f"`self.{memo}` of {c.name} remembers answers computed from "
                              f"{sorted(sources)}: a method that changes them empties the table",
                              DISCHARGED if resets else VIOLATED,
                              "table emptied" if resets else
                              f"`{norm(muts[0])[:40]}` changes what the remembered answers were computed from, and `self.{memo}` is kept: the "
                              f"same question asked again gets the answer of the old state, unlike a new {c.name} in the same state", muts[0].lineno)
    rr.instances += 1
    rr.ob("json_to_models", "<package>", "lazily built views", "cached views are invalidated", DISCHARGED,
          f"{n_caches} lazily built view(s) / memo table(s) found", 1)
    return rr



# ---------------------------------------------------------------------------------------------------------------
def rule_gencall1(ctx: Ctx) -> RuleResult:
    """GENCALL-1: a generator function is never called for its side effects (the body of an un-iterated generator does not run)."""
    rr = RuleResult("GENCALL-1", "no generator function is called without being iterated", floor=1)
    st = ("calling a function that contains `yield` only creates a generator object: as a statement on its own the call does "
          "nothing, so a recursion written as `walk(children)` inside a generator silently skips the children (`yield from` is "
          "missing)")
    n_gen = 0
    for f in sorted(ctx.prog.all_funcs(), key=lambda x: x.key):
        for n in walk_no_nested(f.node):
            if isinstance(n, ast.Expr) and isinstance(n.value, ast.Call):
                tg = [t for t in ctx.cg.resolve_call(f, f.module, n.value) if isinstance(t, FuncInfo)]
                if tg and all(any(isinstance(x, (ast.Yield, ast.YieldFrom)) for x in walk_no_nested(t.node)) for t in tg):
                    rr.instances += 1
                    rr.ob(f.relpath, f.qualname, norm(n)[:70], st, VIOLATED,
                          f"`{norm(n.value)[:50]}` calls the generator function {tg[0].qualname} and drops the result: nothing of its body "
                          f"runs (nested levels are skipped)", n.lineno)
    for f in ctx.prog.all_funcs():
        if any(isinstance(x, (ast.Yield, ast.YieldFrom)) for x in walk_no_nested(f.node)):
            n_gen += 1
    rr.instances += 1
    rr.ob("json_to_models", "<package>", f"{n_gen} generator functions", st, DISCHARGED, "every call of a generator function is consumed", 1)
    if n_gen < 3:
        raise AnalysisError(f"GENCALL-1: only {n_gen} generator functions found in the package")
    return rr
