"""C19 rules: INJ-4 (argv inside the raw triple-quoted header), SHAPE-1..3 (header first; preamble once, between
imports and classes, verbatim)."""
from __future__ import annotations

import ast
from typing import List, Optional

from ..consts import string_context_at_hole
from ..ctx import Ctx
from ..model import AnalysisError, FuncInfo, norm, walk_no_nested
from ..report import ALLOWED, DISCHARGED, VIOLATED, RuleResult
from ..strsym import StrSym, describe, text_of

CLI = "json_to_models/cli.py"
SAFE_PRODUCERS = ("call:datetime.now().ctime", "call:datetime.now().isoformat", "call:datetime.now().strftime",
                  "call:datetime.utcnow().ctime", "call:platform.python_version", "call:time.ctime", "call:time.asctime")


def _is_user_text(label: str) -> bool:
    return any(k in label for k in ("argv", "environ", "input", "param:", "attr:self.", "getenv"))


def rule_inj4(ctx: Ctx) -> RuleResult:
    rr = RuleResult("INJ-4", "the echoed command line cannot terminate or escape the header string literal", floor=1)
    ss = StrSym(ctx)
    f = ctx.prog.func(CLI, "Cli.version_string")
    rets = [n for n in walk_no_nested(f.node) if isinstance(n, ast.Return) and n.value is not None]
    if not rets:
        raise AnalysisError("INJ-4: version_string has no return")
    for r in rets:
        for v in ss.variants(f, f.module, r.value):
            txt_before = ""
            for i, a in enumerate(v):
                if a[0] == "lit":
                    txt_before += a[1]
                    continue
                label, wrappers = a[1], a[2]
                lexctx = string_context_at_hole(txt_before)
                nxt = v[i + 1][1] if i + 1 < len(v) and v[i + 1][0] == "lit" else ""
                prv = v[i - 1][1] if i > 0 and v[i - 1][0] == "lit" else ""
                rr.instances += 1
                st = (f"run-time text `{label}` interpolated in lexical context {lexctx!r} of the header must not be able "
                      f"to end the literal or change its meaning")
                if lexctx == "code":
                    rr.ob(f.relpath, f.qualname, describe([a]), st, VIOLATED,
                          "run-time text is emitted outside any string literal", r.lineno)
                elif any(label.startswith(p) for p in SAFE_PRODUCERS):
                    rr.ob(f.relpath, f.qualname, describe([a]), st, DISCHARGED,
                          "fixed-alphabet value (timestamp / version): no quote or backslash can occur", r.lineno)
                elif _is_user_text(label):
                    ok, why = _sanitised_for(lexctx, wrappers, prv, nxt)
                    rr.ob(f.relpath, f.qualname, describe([a]), st, DISCHARGED if ok else VIOLATED, why, r.lineno)
                elif label.startswith(("call:len", "call:int", "call:os.getpid", "call:str(len")):
                    rr.ob(f.relpath, f.qualname, describe([a]), st, DISCHARGED, "a number: digits only", r.lineno)
                else:
                    # anything else is run-time text of unknown origin (a local, a loop variable, an attribute of some object):
                    # inside the literal it needs the same neutralisation as the echoed command
                    ok, why = _sanitised_for(lexctx, wrappers, prv, nxt)
                    rr.ob(f.relpath, f.qualname, describe([a]), st, DISCHARGED if ok else VIOLATED,
                          why if ok else f"`{label}` is not a fixed-alphabet value and {why}", r.lineno)
                txt_before += "\x00"
            # the literal must be closed by the constant text itself
            rr.instances += 1
            whole = text_of(v, "x")
            try:
                tree = ast.parse(whole)
                ok = len(tree.body) == 1 and isinstance(tree.body[0], ast.Expr) and isinstance(tree.body[0].value, ast.Constant)
            except SyntaxError:
                ok = False
            rr.ob(f.relpath, f.qualname, describe(v)[:120], "with benign placeholders the header is exactly one string "
                  "expression statement", DISCHARGED if ok else VIOLATED,
                  "parses as a single string literal" if ok else "the constant skeleton is not a single string literal",
                  r.lineno)
    return rr


def _sanitised_for(lexctx: str, wrappers, prv: str, nxt: str):
    """Is the chain of transformations adequate for the lexical context of the hole?"""
    raw = lexctx.startswith("r")
    q = lexctx.lstrip("rbufRBUF")
    if q not in ('"""', "'''", '"', "'"):
        return False, f"unsupported lexical context {lexctx!r}"
    exact = ("repr", "json.dumps(ensure_ascii=False)")
    if wrappers and wrappers[-1] in exact:
        return False, ("an escaper producing its own quotes is used inside an existing literal: the result is not the "
                       "original text")
    if len(q) == 3:
        # the LAST transformation must remove every run of three quote characters, and the neighbours must not be able
        # to complete such a run
        if not wrappers:
            return False, f"no sanitiser at all: a {q} in the text ends the literal"
        last = wrappers[-1]
        if last.startswith("re.sub("):
            # a regular-expression substitution removes every triple quote only if its pattern is the bare run of three
            # quotes: any assertion or extra context leaves some of them in place
            try:
                pat, rep = ast.literal_eval("(" + last[len("re.sub("):-1] + ")")
                import re._parser as _rp
                items = list(_rp.parse(pat))
            except Exception:
                return False, f"`{last}`: pattern or replacement is not a constant the analyser can read"
            plain = [(str(op), av) for op, av in items]
            is_bare = (len(plain) == 3 and all(op == "LITERAL" and av == ord(q[0]) for op, av in plain)) or \
                      (len(plain) == 1 and plain[0][0] in ("MAX_REPEAT", "MIN_REPEAT") and plain[0][1][0] == 3 and
                       [(str(o), a) for o, a in plain[0][1][2]] == [("LITERAL", ord(q[0]))])
            if not is_bare:
                kinds = sorted({op for op, _ in plain} - {"LITERAL"})
                return False, (f"`{last}` replaces a {q} only in some contexts (pattern uses {', '.join(kinds) or 'other text'}): "
                               f"the remaining ones still end the literal (in a raw string a backslash does not take the "
                               f"quote's power to terminate away when the backslashes pair up)")
            last = f"replace({q!r},{rep!r})"
        if not (last.startswith("replace(") and last.startswith(f"replace({q!r},")):
            # a replace exists earlier but something (join, quoting, concatenation) is applied after it
            if any(w.startswith(f"replace({q!r},") for w in wrappers):
                return False, (f"`{last}` is applied after the triple-quote replacement: it can assemble a new {q} "
                               f"from the pieces (e.g. a quote added next to two quotes of an argument)")
            return False, f"no transformation removes {q} from the text"
        repl = last[len(f"replace({q!r},"):-1]
        try:
            repl_val = ast.literal_eval(repl)
        except Exception:
            return False, f"replacement text `{repl}` is not a constant"
        if q[0] in repl_val:
            return False, f"the replacement text {repl_val!r} contains the quote character itself"
        if prv.endswith(q[0]) or nxt.startswith(q[0]):
            return False, f"a literal {q[0]} is adjacent to the text: two quotes at its edge complete a {q}"
        if raw and nxt and not nxt.startswith("\n") and False:
            pass
        if not raw:
            return False, "non-raw literal: backslashes in the text would be interpreted as escapes"
        # raw literal: a trailing backslash escapes only the following character lexically; it is followed by a newline
        if raw and not nxt.startswith("\n"):
            return False, "raw literal: text ending in a backslash would swallow the closing quote that follows directly"
        return True, (f"`{last}` is the last transformation; replacement has no quote; neighbours are not quotes; raw "
                      f"literal, followed by a newline")
    return False, "single-quoted context: newlines and quotes in the text are not neutralised"


def rule_shape(ctx: Ctx) -> RuleResult:
    rr = RuleResult("SHAPE-1..3", "header first; preamble exactly once between imports and classes, verbatim", floor=6)
    prog = ctx.prog
    ss = StrSym(ctx, max_depth=2)
    run = prog.func(CLI, "Cli.run")
    gc = prog.func("json_to_models/models/base.py", "generate_code")
    vs_prop = prog.func(CLI, "Cli.version_string")
    # SHAPE-1: the text built in run() is header + generate_code(...)
    outs = []
    for n in walk_no_nested(run.node):
        if isinstance(n, ast.Call) and gc in [t for t in ctx.cg.resolve_call(run, run.module, n) if isinstance(t, FuncInfo)]:
            par = run.module.parents.get(n)
            outs.append((n, par))
    if not outs:
        raise AnalysisError("SHAPE-1: Cli.run does not call generate_code")
    for call, par in outs:
        rr.instances += 1
        def _is_header(e: ast.AST) -> bool:
            # the property itself, or a local bound once to it
            if norm(e) == "self.version_string":
                return True
            if isinstance(e, ast.Name):
                ds = [d for d in walk_no_nested(run.node) if isinstance(d, ast.Assign) and any(norm(t_) == e.id for t_ in d.targets)]
                return len(ds) == 1 and norm(ds[0].value) == "self.version_string"
            return False
        ok = isinstance(par, ast.BinOp) and isinstance(par.op, ast.Add) and par.right is call and \
            _is_header(par.left) and isinstance(run.module.parents.get(par), (ast.Assign, ast.Return))
        rr.ob(run.relpath, run.qualname, norm(par)[:70] if par is not None else norm(call)[:70],
              "the emitted text is the header string followed directly by the generated module", DISCHARGED if ok else VIOLATED,
              "`self.version_string + generate_code(...)`" if ok else
              "the header is not the first component of the output expression", call.lineno)
        # preamble keyword comes from self.preamble untouched
        rr.instances += 1
        kw = next((k for k in call.keywords if k.arg == "preamble"), None)
        ok = kw is not None and norm(kw.value) == "self.preamble"
        rr.ob(run.relpath, run.qualname, f"preamble={norm(kw.value) if kw else '<missing>'}",
              "the stored preamble is passed to generate_code unchanged", DISCHARGED if ok else VIOLATED,
              "passed as is" if ok else "preamble missing or transformed at the call", call.lineno)
    # SHAPE-2: structure of generate_code's result
    rets = [n for n in walk_no_nested(gc.node) if isinstance(n, ast.Return) and n.value is not None]
    variants = []
    for r in rets:
        variants += ss.variants(gc, gc.module, r.value)
    with_p = without_imports_with_p = 0
    for v in variants:
        rr.instances += 1
        roles = []
        for a in v:
            if a[0] == "lit":
                t = a[1]
                if t.startswith("import ") or t.startswith("from ") or " import " in t:
                    roles.append("imports")
                elif t.strip() == "":
                    roles.append("ws")
                else:
                    roles.append("text:" + t[:12])
            else:
                lb = a[1]
                if lb == "param:preamble":
                    roles.append("preamble" if not a[2] else "preamble*")
                elif lb == "param:objects_delimiter":
                    roles.append("delim")
                elif "_generate_code" in lb or "classes" in lb:
                    roles.append("classes")
                elif "imports" in lb or "set" in lb:
                    roles.append("imports")
                else:
                    roles.append("other:" + lb[:20])
        comp = [r for i, r in enumerate(roles) if r not in ("ws",) and (i == 0 or roles[i - 1] != r)]
        st = "module text = [imports, delimiter]? [preamble, delimiter]? classes newline"
        seq = [r for r in comp if r != "delim"]
        expect_ok = seq in (["classes"], ["imports", "classes"], ["preamble", "classes"], ["imports", "preamble", "classes"])
        delim_ok = True
        for i, r in enumerate(comp):
            if r in ("imports", "preamble") and not (i + 1 < len(comp) and comp[i + 1] == "delim"):
                delim_ok = False
        if "preamble" in seq:
            with_p += 1
            if "imports" not in seq:
                without_imports_with_p += 1
        ok = expect_ok and delim_ok and comp.count("preamble") <= 1 and "preamble*" not in comp
        rr.ob(gc.relpath, gc.qualname, " · ".join(comp), st, DISCHARGED if ok else VIOLATED,
              "matches" if ok else f"component order {comp} is not the documented layout (or the preamble is transformed)",
              gc.node.lineno)
    rr.instances += 1
    rr.ob(gc.relpath, gc.qualname, "variants with preamble", "a given preamble is emitted whether or not the module has "
          "imports", DISCHARGED if without_imports_with_p >= 1 and with_p >= 2 else VIOLATED,
          f"{with_p} layouts contain the preamble, {without_imports_with_p} of them without imports"
          if without_imports_with_p else "no layout emits the preamble when there are no imports", gc.node.lineno)
    # the statement adding the preamble is controlled by the truthiness of the parameter alone
    adds = [n for n in walk_no_nested(gc.node) if isinstance(n, (ast.Assign, ast.AugAssign)) and any(
        isinstance(x, ast.Name) and x.id == "preamble" for x in ast.walk(n.value))]
    for n in adds:
        rr.instances += 1
        conds = []
        p = gc.module.parents.get(n)
        child = n
        while p is not None and p is not gc.node:
            if isinstance(p, (ast.If, ast.While, ast.For, ast.Try, ast.With)):
                if isinstance(p, ast.If):
                    conds.append(("" if child in p.body else "not ") + norm(p.test))
                elif not isinstance(p, ast.With):
                    conds.append(type(p).__name__)
            child, p = p, gc.module.parents.get(p)
        ok = conds == ["preamble"]
        rr.ob(gc.relpath, gc.qualname, norm(n), "the preamble is added exactly when it is non-empty", DISCHARGED if ok else VIOLATED,
              "guarded by `if preamble:` only" if ok else f"guarded by {conds}: the preamble can be dropped although given",
              n.lineno)
    if not adds:
        raise AnalysisError("SHAPE-2: generate_code no longer uses its preamble parameter")
    # SHAPE-3: between --preamble and the stored value only str.strip() and `or None`
    sa = prog.func(CLI, "Cli.set_args")
    stores = [n for n in walk_no_nested(sa.node) if isinstance(n, ast.Assign) and norm(n.targets[0]) == "self.preamble"]
    if not stores:
        raise AnalysisError("SHAPE-3: set_args no longer stores self.preamble")
    rr.instances += 1
    uncond = [n for n in stores if n in sa.node.body]
    rr.ob(sa.relpath, sa.qualname, "self.preamble = ...", "every parse sets the preamble afresh (an absent or blank one "
          "resets it): nothing of an earlier command line can be emitted again", DISCHARGED if uncond else VIOLATED,
          "assigned unconditionally in set_args" if uncond else "assigned only under a condition: a Cli object reused for a "
          "second command line keeps the previous preamble", stores[0].lineno)
    for n in stores:
        for v in ss.variants(sa, sa.module, n.value):
            rr.instances += 1
            holes = [a for a in v if a[0] == "hole"]
            lits = [a for a in v if a[0] == "lit" and a[1] not in ("None", "")]
            ok = len(holes) <= 1 and not lits and all(h[1] == "param:preamble" and h[2] in ((), ("strip()",)) for h in holes)
            rr.ob(sa.relpath, sa.qualname, describe(v), "the preamble reaches the module verbatim (only surrounding "
                  "whitespace may be stripped)", DISCHARGED if ok else VIOLATED,
                  "only str.strip()" if ok else f"transformations applied: {[h[2] for h in holes]} {[l[1][:20] for l in lits]}",
                  n.lineno)
    # ... and the trimming is applied to what is stored (an indented first line would otherwise open the module with an IndentationError)
    rr.instances += 1
    stripped = any(h[0] == "hole" and h[1] == "param:preamble" and "strip()" in h[2]
                   for n in stores for v in ss.variants(sa, sa.module, n.value) for h in v)
    rr.ob(sa.relpath, sa.qualname, "self.preamble = <stripped text>", "the text that is stored is the trimmed one", DISCHARGED if stripped else VIOLATED,
          "a stored variant went through str.strip()" if stripped else
          "strip() is used (if at all) only to test the text, the untrimmed text is stored: a preamble whose first line is indented makes the "
          "module start with `IndentationError: unexpected indent`", stores[0].lineno)
    # the namespace value is handed to set_args untouched
    pa = prog.func(CLI, "Cli.parse_args")
    rr.instances += 1
    ok = False
    for n in walk_no_nested(pa.node):
        if isinstance(n, ast.Call) and sa in [t for t in ctx.cg.resolve_call(pa, pa.module, n) if isinstance(t, FuncInfo)]:
            params = [p for p in sa.params if p != "self"]
            idx = params.index("preamble") if "preamble" in params else None
            arg = None
            if idx is not None and idx < len(n.args):
                arg = n.args[idx]
            for k in n.keywords:
                if k.arg == "preamble":
                    arg = k.value
            if isinstance(arg, ast.Name):
                defs = ctx.defs_reaching(pa, arg, arg.id) or []
                ok = len(defs) == 1 and isinstance(defs[0], (ast.Assign, ast.AnnAssign)) and \
                    norm(defs[0].value) == "namespace.preamble"
            elif arg is not None:
                ok = norm(arg) == "namespace.preamble"
    rr.ob(pa.relpath, pa.qualname, "set_args(..., preamble)", "the --preamble value is handed over as parsed",
          DISCHARGED if ok else VIOLATED, "namespace.preamble is passed unchanged" if ok else
          "the value is transformed or lost before set_args", pa.node.lineno)
    return rr
