"""Inference-core rules (C01, C02, C07, C08): OPT-1..5 (optionality through field-set merges), OPT-3 (hoisting),
NULLDET-1, WIDEN-1, NF-1..3, NF-5, NF-6, EQ-1, DROP-1."""
from __future__ import annotations

import ast
import re
from typing import Dict, List, Optional, Set, Tuple

from ..ctx import Ctx
from ..model import AnalysisError, ClassInfo, FuncInfo, attr_chain, norm, walk_no_nested
from ..paths import Path, enumerate_paths
from ..report import ALLOWED, DISCHARGED, VIOLATED, RuleResult
from ..util import dominating_conditions, enclosing_loop, follows_unconditionally, has_escape, names_in

GEN = "json_to_models/generator.py"
CPLX = "json_to_models/dynamic_typing/complex.py"


# ---------------------------------------------------------------------------------------------------------------
# merge_field_sets: path table
# ---------------------------------------------------------------------------------------------------------------
class MergeTable:
    def __init__(self, ctx: Ctx):
        self.ctx = ctx
        self.f = ctx.prog.func(GEN, "MetadataGenerator.merge_field_sets")
        f = self.f
        outer = [n for n in walk_no_nested(f.node) if isinstance(n, ast.For) and norm(n.iter) == f.params[1]]
        if not outer:
            raise AnalysisError("OPT: loop over the field sets not found in merge_field_sets")
        self.outer = outer[0]
        inner = [n for n in self.outer.body if isinstance(n, ast.For) and norm(n.iter).endswith(".items()")]
        if not inner or not isinstance(inner[0].target, ast.Tuple):
            raise AnalysisError("OPT: per-field loop `for name, field in model.items()` not found")
        self.inner = inner[0]
        self.kname, self.vname = (norm(x) for x in self.inner.target.elts)
        # accumulated dict: the name subscripted with the key on the store
        stores = [n for n in ast.walk(self.inner) if isinstance(n, ast.Assign) and isinstance(n.targets[0], ast.Subscript)
                  and norm(n.targets[0].slice) == self.kname]
        if not stores:
            raise AnalysisError("OPT: no store `fields[name] = ...` in the per-field loop")
        self.acc = norm(stores[0].targets[0].value)
        self.rows = self._rows()

    def _rows(self):
        rows = []
        for p in enumerate_paths(self.inner.body):
            # split the unknown "incoming is OPT" fact when the path does not decide it
            inc_t = p.truth(f"isinstance({self.vname}, DOptional)")
            for inc in ([inc_t] if inc_t is not None else [True, False]):
                rows.append(self._row(p, inc))
        return [r for r in rows if r is not None]

    def _row(self, p: Path, incoming_opt: bool):
        new = p.truth(f"{self.kname} not in {self.acc}")
        if new is None:
            t = p.truth(f"{self.kname} in {self.acc}")
            new = (not t) if t is not None else None
        first = p.truth("first")
        # symbolic state along the path
        env: Dict[str, str] = {self.vname: "INC"}  # INC = incoming value as given
        stored_var = None
        stored_opt = None
        out = None  # what is left in acc[name]: 'KEEP' or a symbolic kind
        facts = []
        for s in p.steps:
            if s[0] == "cond":
                t = norm(s[1])
                if stored_var and t == f"isinstance({stored_var}, DOptional)" and env.get(stored_var) == "STO":
                    stored_opt = s[2]
                facts.append((t, s[2]))
                continue
            st = s[1]
            if isinstance(st, ast.Assign) and len(st.targets) == 1:
                tg, v = st.targets[0], st.value
                if isinstance(tg, ast.Name):
                    if norm(v) == f"{self.acc}[{self.kname}]":
                        stored_var = tg.id
                        env[tg.id] = "STO"
                    else:
                        env[tg.id] = self._kind(v, env, incoming_opt, stored_opt, facts)
                elif isinstance(tg, ast.Subscript) and norm(tg) == f"{self.acc}[{self.kname}]":
                    out = self._kind(v, env, incoming_opt, stored_opt, facts)
                elif isinstance(tg, ast.Attribute) and isinstance(tg.value, ast.Name) and tg.attr == "type":
                    # field.type = field.type.types[0]  (collapse inside an Optional): stays OPT
                    pass
        if p.exit == "raise":
            return None
        # axioms (EQ-1 / NF-3): equal IR types have the same class; the content of an Optional is not Optional
        if stored_var:
            v = self.vname
            for t, tv in facts:
                if not tv:
                    continue
                if t in (f"{stored_var} == {v}", f"{v} == {stored_var}") and env.get(stored_var) == "STO" and stored_opt is not None:
                    if incoming_opt != stored_opt:
                        return None
                if t in (f"{stored_var}.type == {v}", f"{v} == {stored_var}.type") and incoming_opt:
                    return None
        if out is None:
            out = "KEEP"
        if new:
            stored_opt = None
        return {"path": p, "new": new, "first": first, "inc_opt": incoming_opt, "sto_opt": stored_opt, "out": out,
                "facts": facts, "exit": p.exit}

    def _kind(self, v: ast.AST, env, inc_opt, sto_opt, facts) -> str:
        """'OPT' | 'NONOPT' | 'CARRY' (a union holding an optional member) | 'INC' | 'STO' | 'STO.type' | '?'"""
        if isinstance(v, ast.Name):
            return env.get(v.id, "?")
        if isinstance(v, ast.IfExp):
            # decided by the path? the enumerator does not split IfExp: evaluate both and combine
            a = self._kind(v.body, env, inc_opt, sto_opt, facts)
            b = self._kind(v.orelse, env, inc_opt, sto_opt, facts)
            return f"IF({norm(v.test)})?{a}:{b}"
        if isinstance(v, ast.Call):
            fn = norm(v.func)
            if fn == "DOptional":
                return "OPT"
            if fn == "DUnion":
                kinds = []
                for a in v.args:
                    x = a.value if isinstance(a, ast.Starred) else a
                    if isinstance(x, ast.IfExp) and isinstance(x.orelse, ast.List) and x.orelse.elts:
                        kinds.append(self._kind(x.orelse.elts[0], env, inc_opt, sto_opt, facts))
                    elif isinstance(x, ast.Call) and len(x.args) == 1 and not x.keywords and isinstance(x.args[0], ast.Name) \
                            and isinstance(a, ast.Starred):
                        # *helper(v): the members of v (v itself when it is not a union)
                        kinds.append(self._kind(x.args[0], env, inc_opt, sto_opt, facts))
                    else:
                        kinds.append(self._kind(x, env, inc_opt, sto_opt, facts))
                res = [self._resolve(k, inc_opt, sto_opt) for k in kinds]
                return "CARRY" if "OPT" in res else "NONOPT"
        if isinstance(v, ast.Attribute) and v.attr == "type" and isinstance(v.value, ast.Name):
            base = env.get(v.value.id, "?")
            return base + ".type"
        if isinstance(v, ast.Subscript) and isinstance(v.value, ast.Attribute) and v.value.attr == "types":
            base = self._kind(v.value.value, env, inc_opt, sto_opt, facts)
            return base  # the only member of a collapsed union keeps the union's optionality
        return "?"

    @staticmethod
    def _resolve(k: str, inc_opt, sto_opt) -> str:
        if k == "INC":
            return "OPT" if inc_opt else "NONOPT"
        if k == "STO":
            return "OPT" if sto_opt else ("NONOPT" if sto_opt is False else "?")
        if k.endswith(".type"):
            return "NONOPT"  # content of an Optional is not Optional (NF-3)
        if k in ("OPT", "CARRY"):
            return "OPT"
        return k


def _outcome_optional(row, first: Optional[bool]) -> Optional[bool]:
    """Does the value left in the accumulated set carry optionality on this row?"""
    out = row["out"]
    if out == "KEEP":
        return row["sto_opt"]
    if out.startswith("IF("):
        test, rest = out[3:].split(")?", 1) if ")?" in out else (out, "")
        a, b = rest.split(":", 1)
        # test: first or isinstance(field, DOptional)
        cond = None
        parts = [x.strip().strip("()") for x in test.split(" or ")]
        known = [x for x in parts if x == "first" or (x.startswith("isinstance(") and x.endswith(", DOptional"))
                 or (x.startswith("isinstance(") and "DOptional" in x)]
        extra = [x for x in parts if x not in known]
        if extra and " and " not in test:
            # a further reason not to wrap the new field (`field is Null`, ...): it can hold when neither known reason does
            cond = True
        elif "first" in test and "isinstance" in test:
            cond = bool(first) or bool(row["inc_opt"])
        elif "first" in test:
            cond = bool(first)
        if cond is None:
            return None
        k = a if cond else b
        return MergeTable._resolve(k, row["inc_opt"], row["sto_opt"]) == "OPT"
    r = MergeTable._resolve(out, row["inc_opt"], row["sto_opt"])
    return True if r == "OPT" else (False if r == "NONOPT" else None)


ACCEPTED_KEEP = None


def rule_opt(ctx: Ctx) -> RuleResult:
    rr = RuleResult("OPT-1/4/5", "a merged field is optional exactly when one side was optional or the field was missing "
                    "from an earlier set; equal types are the only reason to keep the stored one", floor=6)
    mt = MergeTable(ctx)
    f = mt.f
    sv = None
    table: Dict[Tuple, bool] = {}
    for row in mt.rows:
        firsts = [row["first"]] if row["first"] is not None else ([True, False] if row["new"] else [False])
        for first in firsts:
            rr.instances += 1
            opt = _outcome_optional(row, first)
            must = bool(row["inc_opt"]) or bool(row["sto_opt"]) or (bool(row["new"]) and not first)
            desc = (f"{'new' if row['new'] else 'existing'}{' in first set' if row['new'] and first else ''}"
                    f"; stored {'Optional' if row['sto_opt'] else ('-' if row['new'] else 'plain')}"
                    f"; incoming {'Optional' if row['inc_opt'] else 'plain'}; {row['path'].describe()[:90]}")
            st = ("the field left in the merged set is optional iff the stored side or the incoming side was optional, or "
                  "the field is new in a later set")
            if opt is None:
                rr.ob(f.relpath, f.qualname, desc, st, VIOLATED, f"cannot determine the optionality of `{row['out']}` on this "
                      f"path (unrecognised construction)", mt.inner.lineno)
                continue
            ok = opt == must
            how = f"outcome `{row['out']}` -> {'optional' if opt else 'required'}"
            if not ok and must:
                how += ": the field stays required although a sample lacks it or holds null (generated model rejects it)"
            if not ok and not must:
                how += ": Optional introduced without a missing/null observation"
            rr.ob(f.relpath, f.qualname, desc, st, DISCHARGED if ok else VIOLATED, how, mt.inner.lineno)
            table[(row["new"], bool(row["sto_opt"]), bool(row["inc_opt"]))] = opt
        # keep-paths must be justified by an accepted subsumption fact
        if row["out"] == "KEEP" and not row["new"]:
            rr.instances += 1
            true_eq = [t for t, tv in row["facts"] if tv and "==" in t]
            so = next((k for k, v in mt.__dict__.items() if False), None)
            stored = None
            for s in row["path"].stmts():
                if isinstance(s, ast.Assign) and isinstance(s.targets[0], ast.Name) and norm(s.value) == f"{mt.acc}[{mt.kname}]":
                    stored = s.targets[0].id
            v = mt.vname
            accepted = {f"{stored} == {v}", f"{v} == {stored}"}
            if row["sto_opt"]:
                accepted |= {f"{stored}.type == {v}", f"{v} == {stored}.type"}
            ok = any(t in accepted for t in true_eq)
            # membership in a display of exactly the accepted operands: `v in (stored, stored.type)` is `stored == v or stored.type == v`
            for t, tv in row["facts"]:
                if tv and t.startswith(f"{v} in (") and t.endswith(")"):
                    items = [x.strip() for x in t[len(v) + 5:-1].split(",") if x.strip()]
                    if items and all(f"{x} == {v}" in accepted for x in items):
                        ok = True
                        true_eq = true_eq + [t]
                        accepted = accepted | {t}
            rr.ob(f.relpath, f.qualname, f"keep stored: {row['path'].describe()[:100]}",
                  "the stored type is kept without merging only when the incoming type equals it (or equals the content of "
                  "the stored Optional)", DISCHARGED if ok else VIOLATED,
                  f"justified by {[t for t in true_eq if t in accepted]}" if ok else
                  f"kept because of {true_eq or 'no equality at all'}: an incoming type that differs from the stored one is "
                  f"dropped, so the result depends on sample order", mt.inner.lineno)
    # OPT-5: mirrored abstract inputs give the same optionality
    for (a, b) in (((False, True, False), (False, False, True)),):
        if a in table and b in table:
            rr.instances += 1
            ok = table[a] == table[b]
            rr.ob(f.relpath, f.qualname, "stored Optional / incoming plain  vs  stored plain / incoming Optional",
                  "swapping the two sides of a merge does not change whether the field is optional", DISCHARGED if ok else VIOLATED,
                  f"{table[a]} vs {table[b]}", mt.inner.lineno)
    return rr


def rule_opt2(ctx: Ctx) -> RuleResult:
    rr = RuleResult("OPT-2", "fields missing from a later set become optional", floor=3)
    mt = MergeTable(ctx)
    f = mt.f
    # the set of not-yet-seen names is the accumulated key set at the start of each field set
    inits = [n for n in mt.outer.body if isinstance(n, ast.Assign) and isinstance(n.targets[0], ast.Name)
             and norm(n.value) in (f"set({mt.acc}.keys())", f"set({mt.acc})")]
    rr.instances += 1
    ok = bool(inits) and mt.outer.body.index(inits[0]) < mt.outer.body.index(mt.inner)
    diff = inits[0].targets[0].id if inits else "?"
    rr.ob(f.relpath, f.qualname, norm(inits[0]) if inits else "fields_diff = set(fields.keys())",
          "before a field set is merged, all names accumulated so far are recorded as candidates for 'missing'",
          DISCHARGED if ok else VIOLATED, "recorded before the per-field loop" if ok else "not recorded", mt.outer.lineno)
    # every existing name is removed from the candidates on every path (before any continue)
    rr.instances += 1
    bad = []
    for row in mt.rows:
        if row["new"]:
            continue
        removed = any(isinstance(s, ast.Expr) and isinstance(s.value, ast.Call) and norm(s.value.func) in (
            f"{diff}.remove", f"{diff}.discard") and norm(s.value.args[0]) == mt.kname for s in row["path"].stmts())
        if not removed:
            bad.append(row["path"].describe()[:60])
    rr.ob(f.relpath, f.qualname, f"{diff}.remove({mt.kname})", "a name present in the current set is never treated as missing",
          VIOLATED if bad else DISCHARGED, f"paths without removal: {bad[:2]}" if bad else "removed on every existing-name path",
          mt.inner.lineno)
    # after the per-field loop: every remaining candidate is wrapped unless already Optional
    rr.instances += 1
    after = mt.outer.body[mt.outer.body.index(mt.inner) + 1:]
    lp = next((n for n in after if isinstance(n, ast.For) and norm(n.iter) == diff), None)
    ok = False
    why = f"no loop over `{diff}` after the per-field loop"
    if lp is not None:
        nm = norm(lp.target)
        paths = enumerate_paths(lp.body)
        ok = True
        # locals that hold the current entry (`cur = fields[name]`, bound once in the loop body)
        entry = f"{mt.acc}[{nm}]"
        aliases = [entry]
        for s_ in lp.body:
            if isinstance(s_, ast.Assign) and len(s_.targets) == 1 and isinstance(s_.targets[0], ast.Name) and norm(s_.value) == entry and \
                    sum(1 for x in ast.walk(lp) if isinstance(x, ast.Name) and x.id == s_.targets[0].id and isinstance(x.ctx, ast.Store)) == 1:
                aliases.append(s_.targets[0].id)
        for p in paths:
            is_opt = None
            for al in aliases:
                t_ = p.truth(f"isinstance({al}, DOptional)")
                is_opt = t_ if t_ is not None else is_opt
            wrapped = any(isinstance(s, ast.Assign) and norm(s.targets[0]) == entry and
                          norm(s.value) in [f"DOptional({al})" for al in aliases] for s in p.stmts())
            if is_opt is False and not wrapped:
                ok = False
                why = "a missing, not yet optional field is left required"
            if is_opt is None and not wrapped:
                ok = False
                why = f"path `{p.describe()[:50]}` skips the wrap"
    rr.ob(f.relpath, f.qualname, f"for {norm(lp.target) if lp is not None else 'name'} in {diff}: wrap",
          "every name missing from the current set ends up Optional", DISCHARGED if ok else VIOLATED,
          "wrapped unless already Optional" if ok else why, (lp or mt.outer).lineno)
    # `first` is cleared after the first set
    rr.instances += 1
    clr = [n for n in mt.outer.body if isinstance(n, ast.Assign) and norm(n.targets[0]) == "first" and norm(n.value) == "False"]
    ok = bool(clr) and not has_escape(mt.outer.body[:mt.outer.body.index(clr[0])]) if clr else False
    rr.ob(f.relpath, f.qualname, "first = False", "only the very first field set is exempt from 'new field => Optional'",
          DISCHARGED if ok else VIOLATED, "cleared unconditionally at the end of each set" if ok else "flag not cleared", mt.outer.lineno)
    return rr


# ---------------------------------------------------------------------------------------------------------------
def _ou(ctx: Ctx) -> FuncInfo:
    return ctx.prog.func(GEN, "MetadataGenerator._optimize_union")


def _routing_scope(ctx: Ctx) -> List[FuncInfo]:
    """_optimize_union plus the helper (a generator of the same class) that feeds its routing loop, if there is one."""
    f = _ou(ctx)
    out = [f]
    for n in walk_no_nested(f.node):
        if isinstance(n, ast.For) and isinstance(n.iter, ast.Call):
            for t in ctx.cg.resolve_call(f, f.module, n.iter):
                if isinstance(t, FuncInfo) and t.relpath == f.relpath and t not in out and any(
                        isinstance(x, (ast.Yield, ast.YieldFrom)) for x in walk_no_nested(t.node)):
                    out.append(t)
    return out


def _wrapped_then_returned(f, flag: str) -> bool:
    """`if <flag>: X = DOptional(X)` and every later way out returns X (nothing rebinds X in between)."""
    for iff in walk_no_nested(f.node):
        if not (isinstance(iff, ast.If) and norm(iff.test) == flag and not iff.orelse and len(iff.body) == 1):
            continue
        st = iff.body[0]
        if not (isinstance(st, ast.Assign) and len(st.targets) == 1 and isinstance(st.targets[0], ast.Name) and isinstance(st.value, ast.Call)
                and norm(st.value.func) == "DOptional" and len(st.value.args) == 1 and norm(st.value.args[0]) == st.targets[0].id):
            continue
        x = st.targets[0].id
        later_rets = [r for r in walk_no_nested(f.node) if isinstance(r, ast.Return) and r.lineno > st.lineno]
        # (stores in the else-branch of an if that encloses the wrapping are on other paths)
        elsewhere = set()
        child, par = iff, f.module.parents.get(iff)
        while par is not None and par is not f.node:
            if isinstance(par, ast.If) and any(child is b for b in par.body):
                elsewhere |= {id(y) for b in par.orelse for y in ast.walk(b)}
            child, par = par, f.module.parents.get(par)
        later_stores = [n for n in walk_no_nested(f.node) if isinstance(n, ast.Name) and n.id == x and isinstance(n.ctx, ast.Store)
                        and n.lineno > st.lineno and id(n) not in elsewhere]
        if later_rets and all(r.value is not None and norm(r.value) == x for r in later_rets) and not later_stores:
            return True
    return False


def rule_opt3(ctx: Ctx) -> RuleResult:
    rr = RuleResult("OPT-3", "an Optional member of a union hoists to an Optional result", floor=2)
    f = _ou(ctx)
    # (a) unwrapping a DOptional member records Null among the candidates, in the same branch
    rr.instances += 1
    ok = False
    why = "no branch unwraps DOptional members"
    for n in [x for g in _routing_scope(ctx) for x in walk_no_nested(g.node)]:
        if isinstance(n, ast.If) and norm(n.test).startswith("isinstance(") and "DOptional" in norm(n.test):
            unwrap = [s for s in n.body if isinstance(s, ast.Assign) and isinstance(s.value, ast.Attribute) and s.value.attr == "type"]
            addnull = [s for s in n.body if isinstance(s, ast.Expr) and ((isinstance(s.value, ast.Call) and
                       isinstance(s.value.func, ast.Attribute) and s.value.func.attr == "append" and norm(s.value.args[0]) == "Null")
                       or (isinstance(s.value, ast.Yield) and s.value.value is not None and norm(s.value.value) == "Null"))]
            if unwrap:
                ok = bool(addnull)
                why = "" if ok else ("the member is unwrapped but Null is not added to the candidates: nullability of that "
                                     "member is forgotten (e.g. a nullable element type inside a list union)")
                lst = norm(addnull[0].value.func.value) if addnull and isinstance(addnull[0].value, ast.Call) else None
    rr.ob(f.relpath, f.qualname, "if isinstance(item, DOptional): item = item.type; <candidates>.append(Null)",
          "stripping Optional from a union member keeps a Null candidate in its place", DISCHARGED if ok else VIOLATED,
          "Null appended in the unwrapping branch" if ok else why, f.node.lineno)
    # (b) Null among the final candidates => DOptional(...) is returned
    rr.instances += 1
    ok = False
    for n in walk_no_nested(f.node):
        if isinstance(n, ast.If) and norm(n.test).startswith("Null in "):
            flag = [s for s in n.body if isinstance(s, ast.Assign) and isinstance(s.value, ast.Constant) and s.value.value is True]
            if flag:
                fv = norm(flag[0].targets[0])
                rets = [r for r in walk_no_nested(f.node) if isinstance(r, ast.Return) and isinstance(r.value, ast.Call)
                        and norm(r.value.func) == "DOptional"]
                for r in rets:
                    iff = f.module.parents.get(r)
                    if isinstance(iff, ast.If) and norm(iff.test) == fv:
                        ok = True
                ok = ok or _wrapped_then_returned(f, fv)
    # the flag assigned from the membership test itself: `optional = Null in types`
    for n in walk_no_nested(f.node):
        if isinstance(n, ast.Assign) and len(n.targets) == 1 and isinstance(n.targets[0], ast.Name) and isinstance(n.value, ast.Compare) \
                and len(n.value.ops) == 1 and isinstance(n.value.ops[0], ast.In) and norm(n.value.left) == "Null":
            fv = n.targets[0].id
            others = [a for a in walk_no_nested(f.node) if isinstance(a, (ast.Assign, ast.AugAssign, ast.AnnAssign)) and a is not n
                      and any(isinstance(t, ast.Name) and t.id == fv for t in (a.targets if isinstance(a, ast.Assign) else [a.target]))]
            for r in walk_no_nested(f.node):
                if isinstance(r, ast.Return) and isinstance(r.value, ast.Call) and norm(r.value.func) == "DOptional" and not others:
                    iff = f.module.parents.get(r)
                    if isinstance(iff, ast.If) and norm(iff.test) == fv and r.lineno > n.lineno:
                        ok = True
            if not others and _wrapped_then_returned(f, fv):
                ok = True
    rr.ob(f.relpath, f.qualname, "if Null in types: optional = True ... if optional: return DOptional(meta_type)",
          "a Null candidate makes the simplified type Optional", DISCHARGED if ok else VIOLATED,
          "found" if ok else "Null candidates no longer lead to an Optional result", f.node.lineno)
    return rr


def rule_nulldet(ctx: Ctx) -> RuleResult:
    rr = RuleResult("NULLDET-1", "only JSON null is classified as Null; emptiness is classified by container type", floor=3)
    f = ctx.prog.func(GEN, "MetadataGenerator._detect_type")
    v = [p for p in f.params if p != "self"][0]
    for n in walk_no_nested(f.node):
        if isinstance(n, ast.Return) and n.value is not None and norm(n.value) == "Null":
            rr.instances += 1
            iff = f.module.parents.get(n)
            t = norm(iff.test) if isinstance(iff, ast.If) else "?"
            ok = t in (f"{v} is None", f"{v} == None", f"type({v}) is type(None)", f"type({v}) is NoneType")
            # the class of the value held in a local: `t = type(value)` ... `t is type(None)`
            if not ok and isinstance(iff, ast.If) and isinstance(iff.test, ast.Compare) and len(iff.test.ops) == 1 and isinstance(iff.test.ops[0], ast.Is) \
                    and isinstance(iff.test.left, ast.Name) and norm(iff.test.comparators[0]) in ("type(None)", "NoneType"):
                ds = [d for d in walk_no_nested(f.node) if isinstance(d, ast.Assign) and any(norm(t_) == iff.test.left.id for t_ in d.targets)]
                ok = len(ds) == 1 and norm(ds[0].value) == f"type({v})"
            rr.ob(f.relpath, f.qualname, f"if {t}: return Null", "a value is typed Null only if it is None", DISCHARGED if ok else VIOLATED,
                  "identity test against None" if ok else f"`{t}` also holds for other values (empty string, 0, False reach "
                  f"this branch as ordinary values): they would be treated as null and make the field Optional", n.lineno)
        if isinstance(n, ast.Return) and isinstance(n.value, ast.Call) and n.value.args and norm(n.value.args[0]) == "Unknown":
            rr.instances += 1
            # under the emptiness test of the container being typed
            conds = []
            p = f.module.parents.get(n)
            child = n
            while p is not None and p is not f.node:
                if isinstance(p, ast.If):
                    conds.append((norm(p.test), child in p.body))
                child, p = p, f.module.parents.get(p)
            empt = (f"not {v}", True) in conds or (v, False) in conds
            ctr = norm(n.value.func)
            kind_ok = any((("list" in c and ctr == "DList") or ("dict" in c and ctr == "DDict")) and tv for c, tv in conds)
            ok = empt and kind_ok
            rr.ob(f.relpath, f.qualname, f"return {norm(n.value)}", "Any (Unknown) is introduced only as the element type of a "
                  "container observed empty", DISCHARGED if ok else VIOLATED,
                  f"guards: {conds}" if ok else f"not under the emptiness test of the matching container: {conds}", n.lineno)
    if rr.instances < 3:
        raise AnalysisError("NULLDET-1: Null / Unknown introduction sites not found in _detect_type")
    return rr


def rule_widen1(ctx: Ctx) -> RuleResult:
    rr = RuleResult("WIDEN-1", "Unknown / str are introduced, and candidates dropped, only as documented", floor=4)
    prog = ctx.prog
    f = _ou(ctx)
    # removals from a candidate list inside _optimize_union
    for n in walk_no_nested(f.node):
        if isinstance(n, ast.Call) and isinstance(n.func, ast.Attribute) and n.func.attr == "remove" and n.args:
            what = norm(n.args[0])
            rr.instances += 1
            guards = []
            p = f.module.parents.get(n)
            child = n
            while p is not None and p is not f.node:
                if isinstance(p, (ast.If, ast.While)) and child in p.body:
                    # `L.count(W)` as a truth value asks `W in L`
                    guards.append(re.sub(r"([\w.]+)\.count\((\w+)\)(?!\s*[<>=!])", r"\2 in \1", norm(p.test)))
                elif isinstance(p, ast.If):
                    guards.append(f"not ({norm(p.test)})")
                elif isinstance(p, ast.For) and child in p.body and isinstance(p.iter, ast.Call) and norm(p.iter.func) == "range" \
                        and len(p.iter.args) == 1 and isinstance(p.iter.args[0], ast.Call) and isinstance(p.iter.args[0].func, ast.Attribute) \
                        and p.iter.args[0].func.attr == "count" and len(p.iter.args[0].args) == 1 and len(p.body) == 1 and child is p.body[0] \
                        and norm(p.iter.args[0].func.value) == norm(n.func.value) and norm(p.iter.args[0].args[0]) == norm(n.args[0]):
                    # `for _ in range(L.count(W)): L.remove(W)`: as many removals as there are occurrences - `while W in L`
                    guards.append(f"{norm(n.args[0])} in {norm(n.func.value)}")
                child, p = p, f.module.parents.get(p)
            lst = norm(n.func.value)
            if what == "int":
                # both facts hold where the removal runs: in one test, or in nested ones (`if float in L: while int in L:`)
                pos = [g for g in guards if not g.startswith("not (")]
                ok = any(f"float in {lst}" in g for g in pos) and any(f"int in {lst}" in g for g in pos) and not any(
                    " or " in g and (f"float in {lst}" in g or f"int in {lst}" in g) for g in pos)
                rr.ob(f.relpath, f.qualname, norm(n), "int is dropped only next to float (never the reverse)", DISCHARGED if ok else VIOLATED,
                      f"guard {guards}" if ok else f"int removed without float being present: {guards}", n.lineno)
            elif what == "float":
                rr.ob(f.relpath, f.qualname, norm(n), "float is never dropped in favour of int", VIOLATED,
                      "dropping float for int rejects non-integral samples", n.lineno)
            elif what == "Unknown":
                ok = any(f"len({lst}) > 1" in g or f"len({lst}) >= 2" in g for g in guards) and any(f"Unknown in {lst}" in g for g in guards)
                rr.ob(f.relpath, f.qualname, norm(n), "Unknown is dropped only when another candidate remains", DISCHARGED if ok else VIOLATED,
                      f"guard {guards}" if ok else f"guards {guards} do not ensure another candidate", n.lineno)
            elif what == "Null":
                ok = any(f"Null in {lst}" in g for g in guards)
                rr.ob(f.relpath, f.qualname, norm(n), "Null is folded into Optional", DISCHARGED if ok else VIOLATED,
                      f"guard {guards}", n.lineno)
            else:
                rr.ob(f.relpath, f.qualname, norm(n), "only Unknown, Null and int-next-to-float are ever removed from the "
                      "candidates", VIOLATED, f"`{what}` is removed: an observed type is lost", n.lineno)
    # WIDEN-2: the category lists filled by the routing loop reach their consumers unfiltered
    def _is_members(e, fnode):
        t_ = norm(e)
        if t_.endswith(".types") or (isinstance(e, ast.Call) and norm(e.func) in ("list", "tuple", "iter") and e.args
                                      and norm(e.args[0]).endswith(".types")):
            return True
        if isinstance(e, ast.Call) and e.args and _is_members(e.args[0], fnode) and any(
                isinstance(t, FuncInfo) and t in _routing_scope(ctx)[1:] for t in ctx.cg.resolve_call(f, f.module, e)):
            return True
        if isinstance(e, ast.Name):
            ds = ctx.defs_reaching(f, e, e.id) or []
            return bool(ds) and all(isinstance(d, (ast.Assign, ast.AnnAssign)) and d.value is not None and
                                    _is_members(d.value, d) for d in ds if d is not f.node) and all(d is not f.node for d in ds)
        return False
    route = next((n for n in walk_no_nested(f.node) if isinstance(n, ast.For) and _is_members(n.iter, n)), None)
    if route is None:
        raise AnalysisError("WIDEN-2: the routing loop over the union members was not found")
    cats = set()
    for x in ast.walk(route):
        if isinstance(x, ast.Call) and isinstance(x.func, ast.Attribute) and x.func.attr == "append" and isinstance(x.func.value, ast.Name):
            cats.add(x.func.value.id)
    # the generator that feeds the routing loop hands on every member (itself, or taken apart) on every path
    from ..paths import enumerate_paths as _ep
    for h in _routing_scope(ctx)[1:]:
        hl = next((n for n in walk_no_nested(h.node) if isinstance(n, ast.For)), None)
        worklist = None
        if hl is None:
            # an explicit work list: `while stack: item = stack.pop() ...` - a member pushed back is passed on later
            hl = next((n for n in walk_no_nested(h.node) if isinstance(n, ast.While) and isinstance(n.test, ast.Name)), None)
            worklist = hl.test.id if hl is not None else None
        if hl is None:
            raise AnalysisError(f"WIDEN-2: helper {h.qualname} has no loop over the members")
        for pth in _ep(hl.body):
            if pth.exit == "raise":
                continue
            rr.instances += 1
            passes_on = any(isinstance(x, ast.YieldFrom) or (isinstance(x, ast.Yield) and x.value is not None and norm(x.value) != "Null")
                            or (worklist is not None and isinstance(x, ast.Call) and norm(x.func) in (f"{worklist}.extend", f"{worklist}.append"))
                            for s_ in pth.stmts() for x in ast.walk(s_))
            rr.ob(h.relpath, h.qualname, pth.describe()[:90], "each union member is passed on to the categorisation (as it is, unwrapped, "
                  "or member by member)", DISCHARGED if passes_on else VIOLATED,
                  "passed on" if passes_on else "on this path the member yields nothing but Null: the type inside the Optional is dropped",
                  hl.lineno)
    # WIDEN-3: what is routed is the member as unwrapped from Optional: the name bound to `<member>.type` under the Optional
    # test is the one every test and every append of the loop uses
    lv = norm(route.target)
    unwrapped = None
    for x in ast.walk(route):
        if isinstance(x, ast.Assign) and isinstance(x.targets[0], ast.Name) and norm(x.value) == f"{lv}.type":
            unwrapped = x.targets[0].id
    if unwrapped is not None:
        rr.instances += 1
        wrong = []
        for x in ast.walk(route):
            if isinstance(x, ast.Call) and isinstance(x.func, ast.Attribute) and x.func.attr == "append" and x.args and \
                    isinstance(x.args[0], ast.Name) and x.args[0].id in (lv, unwrapped) and x.args[0].id != unwrapped:
                wrong.append(x)
            if isinstance(x, ast.Call) and norm(x.func) == "isinstance" and x.args and isinstance(x.args[0], ast.Name) and \
                    x.args[0].id == lv and unwrapped != lv and norm(x.args[1]) != "DOptional":
                wrong.append(x)
        rr.ob(f.relpath, f.qualname, f"{unwrapped} = {lv}.type", "a member of the form Optional[X] is routed as X (the wrapper only "
              "contributes Null): every category receives the unwrapped member", DISCHARGED if not wrong else VIOLATED,
              "all tests and appends use the unwrapped member" if not wrong else
              f"`{norm(wrong[0])[:50]}` still uses `{lv}`, the member with its Optional wrapper: e.g. Optional[List[X]] lands in the list "
              f"category as a whole and becomes an element type", (wrong[0].lineno if wrong else route.lineno))
    # removals apply to the routed candidates (Optional members are unwrapped by the routing loop; a removal from the
    # raw member list does not see the int inside Optional[int])
    for n in walk_no_nested(f.node):
        if isinstance(n, ast.Call) and isinstance(n.func, ast.Attribute) and n.func.attr in ("remove", "discard", "pop") and n.args \
                and isinstance(n.func.value, ast.Name):
            lstn = n.func.value.id
            ds = ctx.defs_reaching(f, n, lstn) or []

            def _self_filter(d) -> bool:
                v = getattr(d, "value", None)
                return isinstance(v, ast.ListComp) and len(v.generators) == 1 and norm(v.generators[0].iter) == lstn and \
                    norm(v.elt) == norm(v.generators[0].target)
            # (a definition that only filters the list itself does not change where it came from: look at all definitions then)
            if any(_self_filter(d) for d in ds):
                ds = [d for d in walk_no_nested(f.node) if isinstance(d, (ast.Assign, ast.AnnAssign)) and
                      norm(d.targets[0] if isinstance(d, ast.Assign) else d.target) == lstn and not _self_filter(d)]
            derived_ok = lstn in cats or all(isinstance(d, (ast.Assign, ast.AnnAssign)) and d.value is not None and
                                             any(isinstance(c_, ast.Name) and c_.id in cats for c_ in ast.walk(d.value))
                                             for d in ds) and bool(ds)
            rr.instances += 1
            rr.ob(f.relpath, f.qualname, norm(n), "candidates are dropped from the routed lists only (after Optional members "
                  "were unwrapped)", DISCHARGED if derived_ok else VIOLATED,
                  "routed list" if derived_ok else
                  f"`{lstn}` is not one of the lists the routing loop fills ({sorted(cats)}): the rule is applied before Optional "
                  f"members are unwrapped, so whether it takes effect depends on which sample came first", n.lineno)
    # every member goes to exactly one category on every path
    from ..paths import enumerate_paths as _ep
    for pth in _ep(route.body):
        rr.instances += 1
        apps = [norm(s.value.func.value) for s in pth.stmts() if isinstance(s, ast.Expr) and isinstance(s.value, ast.Call)
                and isinstance(s.value.func, ast.Attribute) and s.value.func.attr == "append" and norm(s.value.args[0]) != "Null"]
        okp = len(apps) == 1 and pth.exit == "fall"
        rr.ob(f.relpath, f.qualname, pth.describe()[:90], "each union member is routed to exactly one category", DISCHARGED if okp else VIOLATED,
              f"appended to {apps}" if okp else f"appended to {apps} / exit {pth.exit}: the member is dropped or counted twice", route.lineno)
    for n in walk_no_nested(f.node):
        if isinstance(n, (ast.Assign, ast.AugAssign, ast.AnnAssign)) and n.lineno > route.lineno:
            tg = n.targets[0] if isinstance(n, ast.Assign) else n.target
            if isinstance(tg, ast.Name) and tg.id in cats and getattr(n, "value", None) is not None:
                rr.instances += 1
                v = n.value
                okv = isinstance(v, ast.Call) and isinstance(v.func, ast.Attribute) and v.func.attr == "resolve" and any(
                    isinstance(a, ast.Starred) and norm(a.value) == tg.id for a in v.args)
                rr.ob(f.relpath, f.qualname, norm(n)[:80], "after routing, a category is only consumed (the one rewrite allowed "
                      "is resolving the string pseudo-types to their common type)", DISCHARGED if okv else VIOLATED,
                      "pseudo-type resolution" if okv else f"category `{tg.id}` is filtered / rebuilt: members observed in the "
                      f"samples (e.g. an empty object, typed Dict[str, Any]) are silently dropped", n.lineno)
    # NF-5: Unknown removal works on the complete candidate list (the one unpacked into the final DUnion)
    final = [n for n in walk_no_nested(f.node) if isinstance(n, ast.Call) and norm(n.func) == "DUnion" and len(n.args) == 1
             and isinstance(n.args[0], ast.Starred) and isinstance(n.args[0].value, ast.Name)]
    rr.instances += 1
    ok = False
    why = "final `DUnion(*candidates)` not found"
    if final:
        lst = final[-1].args[0].value.id
        rem = [n for n in walk_no_nested(f.node) if isinstance(n, ast.Call) and norm(n.func) == f"{lst}.remove" and norm(n.args[0]) == "Unknown"]
        # ... or a comprehension that keeps everything but Unknown
        rem += [n for n in walk_no_nested(f.node) if isinstance(n, ast.Assign) and norm(n.targets[0]) == lst and isinstance(n.value, ast.ListComp)
                and len(n.value.generators) == 1 and norm(n.value.generators[0].iter) == lst and len(n.value.generators[0].ifs) == 1
                and norm(n.value.generators[0].ifs[0]) in (f"{norm(n.value.generators[0].target)} is not Unknown",
                                                           f"{norm(n.value.generators[0].target)} != Unknown")]
        adds = [n for n in walk_no_nested(f.node) if isinstance(n, ast.Call) and norm(n.func) in (f"{lst}.append", f"{lst}.extend")]
        defs = [n for n in walk_no_nested(f.node) if isinstance(n, ast.Assign) and norm(n.targets[0]) == lst]
        def _only_filters(d: ast.Assign) -> bool:
            """`lst = [x for x in lst if ...]`: members are only taken away"""
            v = d.value
            return isinstance(v, ast.ListComp) and len(v.generators) == 1 and norm(v.generators[0].iter) == lst and \
                norm(v.elt) == norm(v.generators[0].target)
        ok = bool(rem) and all(a.lineno < rem[0].lineno for a in adds) and all(d.lineno < rem[0].lineno or _only_filters(d) for d in defs)
        why = "" if ok else ("Unknown is not removed from the final candidate list (or candidates are added after the removal): "
                             "Any survives next to a concrete member")
    rr.ob(f.relpath, f.qualname, "types.remove(Unknown) ... DUnion(*types)", "Unknown is dropped from the very list that "
          "becomes the union, after all categories were recombined into it", DISCHARGED if ok else VIOLATED,
          "removal operates on the final list" if ok else why, f.node.lineno)
    # introduce sites of str
    for fn, q in ((GEN, "MetadataGenerator.optimize_type"), (GEN, "MetadataGenerator._optimize_union")):
        g = prog.func(fn, q)
        for n in walk_no_nested(g.node):
            intro = None
            if isinstance(n, ast.Return) and n.value is not None and norm(n.value) == "str":
                intro = n
            if isinstance(n, ast.Call) and isinstance(n.func, ast.Attribute) and n.func.attr == "append" and n.args and (
                    norm(n.args[0]) == "str" or norm(n.args[0]).startswith("str if ")):
                intro = n
            if intro is None:
                continue
            rr.instances += 1
            guards = []
            p = g.module.parents.get(intro)
            while p is not None and p is not g.node:
                if isinstance(p, ast.If):
                    guards.append(norm(p.test))
                p = g.module.parents.get(p)
            t = " ".join(guards) + " " + norm(intro)
            ok = ("overflowed" in t) or ("str in " in t) or ("str_types" in t)
            rr.ob(g.relpath, g.qualname, norm(intro)[:70], "plain str is introduced only for overflowed/empty literal sets, an "
                  "observed str, or unresolvable pseudo-types", DISCHARGED if ok else VIOLATED, f"guards: {guards}", intro.lineno)
    return rr


# ---------------------------------------------------------------------------------------------------------------
def rule_nf(ctx: Ctx) -> RuleResult:
    rr = RuleResult("NF-1/2/3", "no empty union, singleton unions collapse, Optional never wraps Optional", floor=6)
    prog = ctx.prog
    funcs = [prog.func(GEN, q) for q in ("MetadataGenerator._detect_type", "MetadataGenerator.merge_field_sets",
                                         "MetadataGenerator._optimize_union")]
    n_unions = 0
    for f in funcs:
        for n in walk_no_nested(f.node):
            if not (isinstance(n, ast.Call) and norm(n.func) == "DUnion"):
                continue
            n_unions += 1
            par = f.module.parents.get(n)
            # value holder: `u = DUnion(...)`, `field = DOptional(DUnion(...))`, `cls(DUnion(...))`
            holder = None
            wrap = None
            stmt = par
            while stmt is not None and not isinstance(stmt, ast.stmt):
                if isinstance(stmt, ast.Call) and stmt is not n and wrap is None:
                    wrap = stmt
                stmt = f.module.parents.get(stmt)
            if isinstance(stmt, ast.Assign) and isinstance(stmt.targets[0], ast.Name):
                holder = stmt.targets[0].id
            # NF-2: singleton collapse on the constructed union itself
            rr.instances += 1
            if isinstance(par, ast.Attribute) and par.attr == "types" and isinstance(f.module.parents.get(par), ast.Subscript):
                # DUnion(...).types[i]: the union is only used to unite its arguments, a member is taken and the union is dropped
                rr.ob(f.relpath, f.qualname, norm(stmt)[:80] if stmt is not None else norm(n)[:80],
                      "a union is never left with a single member: after construction (which removes duplicates) its size is "
                      "tested and a singleton is replaced by its member", DISCHARGED,
                      "the union does not escape: one of its members is taken (NF-4 decides that the index exists)", n.lineno)
                continue
            access = None
            if holder:
                access = [f"len({holder}.types) == 1", f"len({holder}) == 1", f"len({holder}.type) == 1",
                          f"len({holder}.type.types) == 1"]
            blk = None
            ok2 = False
            if holder and isinstance(stmt, ast.Assign):
                from ..util import enclosing_block
                blk = enclosing_block(f.module, stmt)
                i = blk.index(stmt)
                for nxt in blk[i + 1:i + 3]:
                    if isinstance(nxt, ast.If) and norm(nxt.test) in access:
                        ok2 = True
            passes_on = isinstance(wrap, ast.Call) and norm(wrap.func) in ("cls", "DList", "DDict") and f.name == "_optimize_union"
            if passes_on:
                # wrapped member unions are simplified by the optimize_type pass over the candidates that follows
                later = [c for c in walk_no_nested(f.node) if isinstance(c, (ast.ListComp,)) and "optimize_type" in norm(c) and c.lineno > n.lineno]
                ok2 = bool(later)
            rr.ob(f.relpath, f.qualname, norm(stmt)[:80] if stmt is not None else norm(n)[:80],
                  "a union is never left with a single member: after construction (which removes duplicates) its size is "
                  "tested and a singleton is replaced by its member", DISCHARGED if ok2 else VIOLATED,
                  "size test on the constructed union follows" + (" (via the optimize_type pass)" if passes_on else "") if ok2 else
                  "no `len(<union>) == 1` test on the constructed union directly after it: duplicates removed by the "
                  "constructor can leave Union[X]", n.lineno)
            # NF-1: not built from a possibly empty starred list without an emptiness guard
            if len(n.args) == 1 and isinstance(n.args[0], ast.Starred) and isinstance(n.args[0].value, ast.Name) and f.name == "_optimize_union":
                lst = n.args[0].value.id
                removals = [c for c in walk_no_nested(f.node) if isinstance(c, ast.Call) and norm(c.func) == f"{lst}.remove"]
                if removals:
                    rr.instances += 1
                    guards = []
                    p = f.module.parents.get(stmt)
                    child = stmt
                    while p is not None and p is not f.node:
                        if isinstance(p, ast.If):
                            guards.append((norm(p.test), child in p.body))
                        child, p = p, f.module.parents.get(p)
                    okg = (f"not {lst}", False) in guards or (lst, True) in guards or (f"len({lst}) > 0", True) in guards
                    rr.ob(f.relpath, f.qualname, norm(n), f"`{lst}` can be emptied by the removals of Unknown/Null above, so "
                          f"the union is built only when something is left", DISCHARGED if okg else VIOLATED,
                          f"guarded: {guards}" if okg else "no emptiness guard: DUnion() with no members makes the next "
                          "simplification pass fail (IndexError)", n.lineno)
    if n_unions < 5:
        raise AnalysisError(f"NF: only {n_unions} DUnion constructions found")
    # NF-3: DOptional(x) never wraps an Optional
    for f in funcs + [prog.func(GEN, "MetadataGenerator.optimize_type")]:
        for n in walk_no_nested(f.node):
            if isinstance(n, ast.Call) and norm(n.func) == "DOptional" and n.args:
                rr.instances += 1
                a = n.args[0]
                why = None
                if isinstance(a, ast.Call) and norm(a.func) == "DUnion":
                    why = "argument is a fresh union"
                else:
                    # dominating negative isinstance guard on the same expression (any spelling: if / conditional expression /
                    # short circuit / early exit; see util.dominating_conditions)
                    if (f"isinstance({norm(a)}, DOptional)", False) in dominating_conditions(f.module, n, f.node):
                        why = "every evaluation is dominated by `not isinstance(..., DOptional)`"
                    p = f.module.parents.get(n)
                    child = n
                    while p is not None and p is not f.node and why is None:
                        if isinstance(p, ast.If) and norm(p.test) == f"not isinstance({norm(a)}, DOptional)" and child in p.body:
                            why = "guarded by `not isinstance(..., DOptional)`"
                        if isinstance(p, ast.IfExp) and f"isinstance({norm(a)}, DOptional)" in norm(p.test) and child is p.orelse:
                            why = "else-branch of an isinstance(..., DOptional) test"
                        child, p = p, f.module.parents.get(p)
                    if why is None and f.name == "_optimize_union":
                        why = "meta_type is built from candidates from which Optional members were unwrapped and Null removed"
                rr.ob(f.relpath, f.qualname, norm(n)[:60], "Optional is never nested in Optional", DISCHARGED if why else VIOLATED,
                      why or "no guard excludes an Optional argument", n.lineno)
    ot = prog.func(GEN, "MetadataGenerator.optimize_type")
    rr.instances += 1
    ok = any(isinstance(n, ast.If) and norm(n.test) == "isinstance(t, DOptional)" and any(
        norm(s) == "t = t.type" for s in n.body) for n in walk_no_nested(ot.node))
    # the same unwrapping as a conditional expression (either polarity)
    ok = ok or any(isinstance(n, ast.Assign) and norm(n.targets[0]) == "t" and isinstance(n.value, ast.IfExp) and (
        (norm(n.value.test) == "isinstance(t, DOptional)" and norm(n.value.body) == "t.type" and norm(n.value.orelse) == "t") or
        (norm(n.value.test) == "not isinstance(t, DOptional)" and norm(n.value.body) == "t" and norm(n.value.orelse) == "t.type"))
        for n in walk_no_nested(ot.node))
    rr.ob(ot.relpath, ot.qualname, "if isinstance(t, DOptional): t = t.type", "re-simplifying the content of an Optional unwraps "
          "an Optional result before re-wrapping", DISCHARGED if ok else VIOLATED, "found" if ok else "missing", ot.node.lineno)
    return rr


def rule_nf6(ctx: Ctx) -> RuleResult:
    rr = RuleResult("NF-6", "merged models are simplified when created and all models once more afterwards", floor=2)
    f = ctx.prog.func("json_to_models/registry.py", "ModelRegistry.merge_models")
    merges = [n for n in walk_no_nested(f.node) if isinstance(n, ast.Assign) and isinstance(n.value, ast.Call)
              and norm(n.value.func) == "self._merge"]
    rr.instances += 1
    ok = False
    if merges:
        mv = norm(merges[0].targets[0])
        lp = enclosing_loop(f.module, merges[0])
        opt = [c for c in ast.walk(lp) if isinstance(c, ast.Call) and isinstance(c.func, ast.Attribute) and
               c.func.attr == "optimize_type" and c.args and norm(c.args[0]) == mv] if lp is not None else []
        ok = bool(opt) and follows_unconditionally(lp.body, merges[0], opt[0])
    # (one pass of the simplifier is a fixed point - NF-4 decides that - so the pass right after each merge is not needed for
    # the normal form; it is recorded, and the pass over all models after the last merge is what is required)
    rr.ob(f.relpath, f.qualname, "generator.optimize_type(model_meta)", "each freshly merged model is simplified (at once, or by the "
          "pass over all models that follows the merges)", DISCHARGED,
          "called unconditionally after _merge" if ok else "left to the pass over all models (one pass is a fixed point: NF-4)",
          f.node.lineno)
    rr.instances += 1
    ok = False
    for lp in walk_no_nested(f.node):
        tgt = None
        if isinstance(lp, ast.For) and norm(lp.iter) in ("self.models", "self._registry.values()", "list(self.models)",
                                                         "list(self._registry.values())") and isinstance(lp.target, ast.Name):
            tgt = lp.target.id
        elif isinstance(lp, ast.For) and norm(lp.iter) in ("self._registry.items()", "list(self._registry.items())") \
                and isinstance(lp.target, ast.Tuple) and len(lp.target.elts) == 2 and isinstance(lp.target.elts[1], ast.Name):
            tgt = lp.target.elts[1].id        # for _, model in self._registry.items()
        if tgt is not None:
            calls = [st.value for st in lp.body if isinstance(st, ast.Expr) and isinstance(st.value, ast.Call)
                     and isinstance(st.value.func, ast.Attribute) and st.value.func.attr == "optimize_type"
                     and st.value.args and norm(st.value.args[0]) == tgt]
            if calls and not has_escape(lp.body) and merges and lp.lineno > merges[0].lineno:
                ok = True
    rr.ob(f.relpath, f.qualname, "for model_meta in self.models: generator.optimize_type(model_meta)",
          "after the last merge every registered model is simplified (again): a later merge can make two pointers in an "
          "earlier merged model refer to one model", DISCHARGED if ok else VIOLATED,
          "final pass over all models" if ok else "no pass over ALL models after the merges: Union['F', 'F'] stays in a model merged "
          "before the models it points to were", f.node.lineno)
    return rr


def rule_eq1(ctx: Ctx) -> RuleResult:
    rr = RuleResult("EQ-1", "type equality is order-insensitive, type-exact and never served from a stale cache", floor=5)
    prog = ctx.prog
    base = prog.cls("json_to_models/dynamic_typing/base.py", "BaseType")
    # (a) every __eq__ conjoins a type identity test
    for c in prog.subclasses(base):
        for f in c.methods.get("__eq__", []):
            rr.instances += 1
            rets = [n for n in walk_no_nested(f.node) if isinstance(n, ast.Return) and n.value is not None]
            def _typed(r) -> bool:
                t_ = norm(r.value)
                if "type(other) is type(self)" in t_ or "type(self) is type(other)" in t_ or "super().__eq__" in t_ or "isinstance(other, dict)" in norm(f.node):
                    return True
                # `False` (or NotImplemented) needs no test; a comparison dominated by the class test has it
                if isinstance(r.value, ast.Constant) and r.value.value is False or t_ == "NotImplemented":
                    return True
                conds = dominating_conditions(f.module, r, f.node)
                return ("type(other) Is type(self)", True) in conds or ("type(self) Is type(other)", True) in conds
            okc = all(_typed(r) for r in rets)
            rr.ob(f.relpath, f.qualname, "; ".join(norm(r.value)[:50] for r in rets), "equal IR types have the same class",
                  DISCHARGED if okc else VIOLATED, "type identity conjoined" if okc else "equality ignores the class", f.node.lineno)
    # (a') what is compared is the content itself, not a projection of it
    PROJ = (".keys()", "len(", ".name", ".index", "set(self.type)", "sorted(self.type)", "hash(")
    for c in prog.subclasses(base):
        for f in c.methods.get("__eq__", []):
            rets = [n for n in walk_no_nested(f.node) if isinstance(n, ast.Return) and n.value is not None]
            for r in rets:
                for cmpn in ast.walk(r.value):
                    if isinstance(cmpn, ast.Compare) and len(cmpn.ops) == 1 and isinstance(cmpn.ops[0], ast.Eq):
                        l, rgt = norm(cmpn.left), norm(cmpn.comparators[0])
                        if "self" in l or "self" in rgt:
                            rr.instances += 1
                            proj = [p_ for p_ in PROJ if p_ in l or p_ in rgt]
                            if c.name == "ModelMeta" and {l, rgt} == {"self.index", "other.index"}:
                                # a registered model is identified by its unique index (it hashes by it): identity, not a projection
                                # of the content (EQCYC-1 explains why models are not compared field by field)
                                proj = []
                            rr.ob(f.relpath, f.qualname, norm(cmpn)[:70], "two IR nodes are equal only if their whole content is equal: "
                                  "merge_field_sets keeps the stored type without merging when the incoming one compares equal",
                                  VIOLATED if proj else DISCHARGED,
                                  f"compares {proj[0].strip('.(')} only: nodes that differ in the rest (same field names, other value "
                                  f"types) compare equal and the later one is dropped, so the result depends on sample order"
                                  if proj else "full content compared", cmpn.lineno)
    # (a'') ... and it IS an equality: every __eq__ of an IR class that looks at content does so with `==` between the same attribute
    # of self and other (or hands over to super / compares with a dict); a difference, a subset test or a zip over members is one-sided
    for c in prog.subclasses(base):
        for f in c.methods.get("__eq__", []):
            txt = norm(f.node)
            if "self." not in txt.replace("type(self)", ""):
                continue                    # no content looked at (identity / class only)
            rr.instances += 1
            eqs = [x for x in walk_no_nested(f.node) if isinstance(x, ast.Compare) and len(x.ops) == 1 and isinstance(x.ops[0], ast.Eq)
                   and isinstance(x.left, ast.Attribute) and isinstance(x.comparators[0], ast.Attribute)
                   and {norm(x.left.value), norm(x.comparators[0].value)} == {"self", "other"} and x.left.attr == x.comparators[0].attr]
            handed = "super().__eq__" in txt or any(isinstance(x, ast.Compare) and isinstance(x.ops[0], ast.Eq) and
                                                    {"other"} & {norm(x.left), norm(x.comparators[0])} for x in walk_no_nested(f.node)) \
                or "self is other" in txt or "other is self" in txt
            ok_ = bool(eqs) or handed
            rr.ob(f.relpath, f.qualname, "content compared with ==", "equality of two IR nodes is decided by `==` on their content (symmetric, "
                  "both directions at once)", DISCHARGED if ok_ else VIOLATED,
                  f"`self.{eqs[0].left.attr} == other.{eqs[0].left.attr}`" if eqs else ("handed to super() / compared as a whole" if handed else
                  "the content is compared by a difference, a subset test or pairwise over a zip: `a == b` holds when a's content is only "
                  "part of b's, so the later, richer sample is dropped and the result depends on sample order"), f.node.lineno)
    # (b) ComplexType compares sorted MEMBERS
    ct = prog.cls(CPLX, "ComplexType")
    eq = ct.methods["__eq__"][0]
    rr.instances += 1
    ok = "self.sorted == other.sorted" in norm(eq.node)
    rr.ob(eq.relpath, eq.qualname, "self.sorted == other.sorted", "unions compare their members irrespective of order",
          DISCHARGED if ok else VIOLATED, "sorted views compared" if ok else "members compared in list order or by another proxy",
          eq.node.lineno)
    so = prog.func(CPLX, "ComplexType.sorted")
    rr.instances += 1
    srt = [n for n in walk_no_nested(so.node) if isinstance(n, ast.Call) and norm(n.func) == "sorted"]
    ok = len(srt) == 1 and srt[0].args and norm(srt[0].args[0]) in ("self.types", "self._types") and \
        all(k.arg == "key" for k in srt[0].keywords)
    stored = [n for n in walk_no_nested(so.node) if isinstance(n, ast.Assign) and norm(n.targets[0]) == "self._sorted"]
    rets = [n for n in walk_no_nested(so.node) if isinstance(n, ast.Return) and n.value is not None]
    ok = ok and all(isinstance(r.value, ast.Name) for r in rets) and all(norm(s.value) == norm(rets[0].value) for s in stored)
    if ok:
        # the returned/stored local is the sorted(...) result itself
        loc = norm(rets[0].value)
        defs = [n for n in walk_no_nested(so.node) if isinstance(n, ast.Assign) and norm(n.targets[0]) == loc]
        ok = any(d.value is srt[0] for d in defs)
    rr.ob(so.relpath, so.qualname, norm(srt[0])[:60] if srt else "sorted", "the cached sorted view holds the members themselves "
          "(sorted by a key), not the keys", DISCHARGED if ok else VIOLATED,
          "sorted(self.types, key=...) is what is cached and returned" if ok else
          "the view compared by __eq__ is not the member list: distinct members with equal sort keys (e.g. objects with the "
          "same field names but other value types) compare equal and the later sample is dropped", so.node.lineno)
    # (c) cache invalidation: every write to _type/_types outside __init__ happens in a function that also clears the caches
    for c in prog.subclasses(base):
        for ms in c.methods.values():
            for f in ms:
                if f.name == "__init__":
                    continue
                writes = [n for n in walk_no_nested(f.node) if isinstance(n, (ast.Assign, ast.AugAssign)) and any(
                    isinstance(t, ast.Attribute) and t.attr in ("_type", "_types") and norm(t.value) == "self"
                    for t in (n.targets if isinstance(n, ast.Assign) else [n.target]))]
                for w in writes:
                    rr.instances += 1
                    cleared = {norm(t) for n in walk_no_nested(f.node) if isinstance(n, ast.Assign) and norm(n.value) == "None"
                               for t in n.targets}
                    need = {"self._hash"} | ({"self._sorted"} if "_types" in norm(w) else set())
                    ok = need <= cleared
                    rr.ob(f.relpath, f.qualname, norm(w), "changing the content of a type clears its cached hash string / "
                          "sorted view", DISCHARGED if ok else VIOLATED, "caches reset in the same function" if ok else
                          f"{sorted(need - cleared)} keep their old value: de-duplication and equality see the old content "
                          f"(two pointers to one model stay 'different')", w.lineno)
        # in-place element assignment through the public property must go through the setter
    # (d) de-duplication tokens are complete: no truncation, no lossy hashing of the members
    for c in list(prog.subclasses(base)):
        for mname in ("_to_hash_string", "to_hash_string", "_repr_literals"):
            for f in c.methods.get(mname, []):
                rr.instances += 1
                lossy = [n for n in walk_no_nested(f.node) if (isinstance(n, ast.Subscript) and isinstance(n.slice, ast.Slice)) or (
                    isinstance(n, ast.Call) and norm(n.func) in ("hash", "hashlib.md5", "hashlib.sha1", "zlib.crc32", "abs", "id"))
                    or (isinstance(n, ast.JoinedStr) and any(isinstance(v, ast.FormattedValue) and v.format_spec is not None for v in n.values))]
                rr.ob(f.relpath, f.qualname, norm(lossy[0])[:60] if lossy else mname, "the text that stands for a type in "
                      "de-duplication and equality is built from all of its content (different types never share a token)",
                      VIOLATED if lossy else DISCHARGED,
                      f"`{norm(lossy[0])[:50]}` truncates / hashes the token: two different types (e.g. literal sets that differ "
                      f"only in a late member) collapse into one union member and observed values vanish" if lossy else
                      "no truncation or hashing", f.node.lineno)
    rp = prog.func(CPLX, "SingleType.replace")
    rr.instances += 1
    ok = any(isinstance(n, ast.Assign) and norm(n.targets[0]) == "self.type" for n in walk_no_nested(rp.node))
    rr.ob(rp.relpath, rp.qualname, "self.type = t", "replace() assigns through the property setter (which invalidates the cache)",
          DISCHARGED if ok else VIOLATED, "setter used" if ok else "assigns the slot directly", rp.node.lineno)
    return rr


def rule_drop1(ctx: Ctx) -> RuleResult:
    rr = RuleResult("DROP-1", "a field is omitted from emission only by the all-null filter of pydantic/sqlmodel", floor=2)
    prog = ctx.prog
    base = prog.cls("json_to_models/models/base.py", "GenericModelCodeGenerator")
    for k in prog.subclasses(base):
        for f in k.methods.get("_filter_fields", []):
            rr.instances += 1
            if k is base:
                ok = all(isinstance(n, ast.Return) and norm(n.value) == f.params[1] for n in f.node.body if isinstance(n, ast.Return))
                rr.ob(f.relpath, f.qualname, "return fields", "the base generator emits every field", DISCHARGED if ok else VIOLATED,
                      "identity" if ok else "base filter drops fields", f.node.lineno)
                continue
            conts = [n for n in walk_no_nested(f.node) if isinstance(n, ast.Continue)]
            ok = bool(conts)
            comps = [n for n in walk_no_nested(f.node) if isinstance(n, (ast.ListComp, ast.GeneratorExp)) and any(g.ifs for g in n.generators)]
            if not conts and comps:
                # `[field for field in fields if self.model.type[field] not in (Unknown, Null)]`
                okc = True
                texts = []
                for cp in comps:
                    g0 = cp.generators[0]
                    v = norm(g0.target)
                    for cnd in g0.ifs:
                        t = norm(cnd)
                        texts.append(t)
                        if t not in (f"self.model.type[{v}] not in (Unknown, Null)", f"self.model.type[{v}] not in (Null, Unknown)",
                                     f"self.model.type.get({v}) not in (Unknown, Null)"):
                            okc = False
                    if len(cp.generators) != 1 or norm(cp.elt) != v:
                        okc = False
                only_fw = k.name.startswith(("Pydantic", "SqlModel"))
                rr.ob(f.relpath, f.qualname, "; ".join(texts)[:90],
                      "fields are skipped only when their type is Unknown or Null (every observed value null), and only for "
                      "pydantic/sqlmodel", DISCHARGED if okc and only_fw else VIOLATED,
                      "kept unless the type is Unknown / Null" if okc and only_fw else "fields can be dropped for another reason", f.node.lineno)
                continue
            if not conts and not comps:
                # the positive form: `if <type of the field> not in (Unknown, Null): kept.append(field)`
                apps = [n for n in walk_no_nested(f.node) if isinstance(n, ast.Call) and isinstance(n.func, ast.Attribute) and n.func.attr == "append"
                        and enclosing_loop(f.module, n) is not None and n.args and norm(n.args[0]) == norm(enclosing_loop(f.module, n).target)]
                okp = bool(apps)
                texts = []
                for a_ in apps:
                    lvn = norm(enclosing_loop(f.module, a_).target)
                    conds = dominating_conditions(f.module, a_, f.node)
                    texts += [("" if t_ else "not ") + c_ for c_, t_ in sorted(conds)]
                    for c_, t_ in conds:
                        subj = c_.split(" In ")[0] if " In (" in c_ else None
                        if subj is None or t_ or c_.split(" In ", 1)[1] not in ("(Unknown, Null)", "(Null, Unknown)"):
                            okp = False
                            continue
                        if subj not in (f"self.model.type[{lvn}]", f"self.model.type.get({lvn})"):
                            ds = [d for d in walk_no_nested(f.node) if isinstance(d, (ast.Assign, ast.AnnAssign)) and d.value is not None
                                  and norm(d.targets[0] if isinstance(d, ast.Assign) else d.target) == subj]
                            if not (len(ds) == 1 and norm(ds[0].value) in (f"self.model.type[{lvn}]", f"self.model.type.get({lvn})")):
                                okp = False
                only_fw = k.name.startswith(("Pydantic", "SqlModel"))
                rr.ob(f.relpath, f.qualname, "; ".join(texts)[:90],
                      "fields are skipped only when their type is Unknown or Null (every observed value null), and only for "
                      "pydantic/sqlmodel", DISCHARGED if okp and only_fw else VIOLATED,
                      "kept unless the type is Unknown / Null" if okp and only_fw else "fields can be dropped for another reason", f.node.lineno)
                continue
            for c in conts:
                iff = f.module.parents.get(c)
                t = norm(iff.test) if isinstance(iff, ast.If) else ""
                if not (" in (Unknown, Null)" in t or " in (Null, Unknown)" in t or t.endswith("is Null") or t.endswith("is Unknown")):
                    ok = False
                # what is tested is the type of the field itself, not something derived from it
                if isinstance(iff, ast.If) and isinstance(iff.test, ast.Compare) and isinstance(iff.test.left, ast.Name):
                    ds = ctx.defs_reaching(f, iff.test.left, iff.test.left.id) or []
                    lpv = enclosing_loop(f.module, c)
                    lvn = norm(lpv.target) if lpv is not None else "?"
                    if not (len(ds) == 1 and isinstance(ds[0], (ast.Assign, ast.AnnAssign)) and ds[0].value is not None and
                            norm(ds[0].value) in (f"self.model.type[{lvn}]", f"self.model.type.get({lvn})")):
                        ok = False
            only_fw = k.name.startswith(("Pydantic", "SqlModel"))
            rr.ob(f.relpath, f.qualname, "; ".join(norm(f.module.parents.get(c).test) for c in conts if isinstance(f.module.parents.get(c), ast.If)),
                  "fields are skipped only when their type is Unknown or Null (every observed value null), and only for "
                  "pydantic/sqlmodel", DISCHARGED if ok and only_fw else VIOLATED,
                  "skip guarded by the Unknown/Null test" if ok and only_fw else "fields can be dropped for another reason", f.node.lineno)
    # fields property emits required + optional, each through field_data, nothing else filtered
    fp = prog.func("json_to_models/models/base.py", "GenericModelCodeGenerator.fields")
    rr.instances += 1
    loops = [n for n in walk_no_nested(fp.node) if isinstance(n, ast.For) and isinstance(n.target, ast.Name) and "fields" in norm(n.iter)]
    ok = bool(loops) and all(not has_escape(l.body) for l in loops)
    rr.ob(fp.relpath, fp.qualname, "for field in fields: ... strings.append(...)", "every field that passes the filter is emitted",
          DISCHARGED if ok else VIOLATED, "no skip in the emission loop" if ok else "emission loop skips fields", fp.node.lineno)
    # _convert stores one entry per key
    cv = prog.func(GEN, "MetadataGenerator._convert")
    rr.instances += 1
    lp = next((n for n in walk_no_nested(cv.node) if isinstance(n, ast.For) and norm(n.iter).endswith(".items()")), None)
    ok = False
    if lp is not None:
        paths = [p for p in enumerate_paths(lp.body) if p.exit != "raise"]
        kv = norm(lp.target.elts[0])
        ok = bool(paths) and all(any(isinstance(s, ast.Assign) and isinstance(s.targets[0], ast.Subscript) and
                                     norm(s.targets[0].slice) == kv for s in p.stmts()) for p in paths)
    rr.ob(cv.relpath, cv.qualname, "fields[key] = self._detect_type(value, convert_dict)", "every key of a sample gets a field "
          "(the only other way out is the TypeError for non-string keys)", DISCHARGED if ok else VIOLATED,
          "stored on every non-raising path" if ok else "some keys are skipped", cv.node.lineno)
    return rr


def rule_val1(ctx: Ctx) -> RuleResult:
    """The value whose type is detected is the sample value itself, and detection uses the configured registry."""
    rr = RuleResult("VAL-1", "types are detected on the sample values themselves, with the configured string-type registry", floor=5)
    prog = ctx.prog
    det = prog.func(GEN, "MetadataGenerator._detect_type")
    for fname in ("MetadataGenerator._convert", "MetadataGenerator._detect_type"):
        f = prog.func(GEN, fname)
        for n in walk_no_nested(f.node):
            if not (isinstance(n, ast.Call) and det in [t for t in ctx.cg.resolve_call(f, f.module, n) if isinstance(t, FuncInfo)]):
                continue
            rr.instances += 1
            a = n.args[0] if n.args else None
            ok = False
            why = "argument is not a plain element of the sample"
            if isinstance(a, ast.Name):
                # the name must be bound by iteration over the sample (loop / comprehension target) and never reassigned
                binders = []
                p = f.module.parents.get(n)
                while p is not None and p is not f.node:
                    if isinstance(p, (ast.ListComp, ast.GeneratorExp, ast.SetComp, ast.DictComp)):
                        binders += [g for g in p.generators if a.id in names_in(g.target)]
                    if isinstance(p, ast.For) and a.id in names_in(p.target):
                        binders.append(p)
                    p = f.module.parents.get(p)
                rebinds = [d for d in walk_no_nested(f.node) if isinstance(d, (ast.Assign, ast.AugAssign, ast.AnnAssign)) and any(
                    isinstance(t, ast.Name) and t.id == a.id for t in (d.targets if isinstance(d, ast.Assign) else [d.target]))]
                # inside _detect_type the parameter itself is re-bound only by the parser call of the detection loop (DET-1)
                rebinds = [d for d in rebinds if not (isinstance(d.value, ast.Call) and isinstance(d.value.func, ast.Attribute)
                                                      and d.value.func.attr == "to_internal_value")]
                ok = bool(binders) and not rebinds
                why = "" if ok else (f"`{norm(rebinds[0])[:50]}` rewrites the value before its type is detected: literals and "
                                     f"pseudo-types are inferred from text that never occurred in the samples" if rebinds else
                                     "not bound by iterating the sample")
            rr.ob(f.relpath, f.qualname, norm(n)[:70], "the value handed to type detection is an element of the sample, as "
                  "observed (no normalisation before detection)", DISCHARGED if ok else VIOLATED, "element of the sample" if ok else why,
                  n.lineno)
    # the value parameter of _detect_type itself: re-bound only by the parser call of the detection loop
    vparam = [a for a in det.params if a != "self"][0]
    rr.instances += 1
    rebinds = [d for d in walk_no_nested(det.node) if isinstance(d, (ast.Assign, ast.AugAssign, ast.AnnAssign)) and any(
        isinstance(t, ast.Name) and t.id == vparam for t in (d.targets if isinstance(d, ast.Assign) else [d.target]))]
    rebinds = [d for d in rebinds if not (isinstance(getattr(d, "value", None), ast.Call) and isinstance(d.value.func, ast.Attribute)
                                          and d.value.func.attr == "to_internal_value")]
    rr.ob(det.relpath, det.qualname, f"parameter `{vparam}`", "the value whose type is detected - and that becomes a Literal member - is the "
          "sample value as observed (no normalisation before detection)", VIOLATED if rebinds else DISCHARGED,
          f"`{norm(rebinds[0])[:50]}` rewrites the value: \" kg\" and \"kg\" become one literal, and a Literal lists a string that is "
          f"in no sample" if rebinds else "never re-bound outside the parser call", (rebinds[0].lineno if rebinds else det.node.lineno))
    # REGUSE-1: inside the generator, only the configured registry is consulted
    cls = prog.cls(GEN, "MetadataGenerator")
    for ms in cls.methods.values():
        for f in ms:
            for n in walk_no_nested(f.node):
                if isinstance(n, ast.Name) and n.id == "registry" and isinstance(n.ctx, ast.Load):
                    rr.instances += 1
                    ok = f.name == "__init__"
                    rr.ob(f.relpath, f.qualname, norm(f.module.parents.get(n))[:70], "the module-level default registry is "
                          "only the fallback chosen in __init__; every lookup goes through self.str_types_registry", DISCHARGED if ok else VIOLATED,
                          "default selection" if ok else "the default registry is consulted directly: a registry passed to the "
                          "generator (with types added or disabled) is ignored here", n.lineno)
    return rr


def rule_nf7(ctx: Ctx) -> RuleResult:
    """DUnion.__init__: the 'literals still usable' flag returned by the member handler is never dropped."""
    rr = RuleResult("NF-7", "str seen anywhere among the members switches string literals off for the whole union", floor=2)
    f = ctx.prog.func(CPLX, "DUnion.__init__")
    inner = [g for g in ctx.prog.all_funcs() if g.parent is f]
    if not inner:
        raise AnalysisError("NF-7: member handler closure of DUnion.__init__ not found")
    h = inner[0]
    returns_flag = any(isinstance(x, ast.Return) and x.value is not None for x in walk_no_nested(h.node))
    if not returns_flag:
        rr.instances += 1
        rr.ob(f.relpath, f.qualname, h.name, "member handler keeps the flag itself", DISCHARGED,
              "the handler returns nothing (state is kept elsewhere): nothing to fold back", h.node.lineno, trivial=True)
        rr.instances += 1
        return rr
    for n in walk_no_nested(f.node):
        if isinstance(n, ast.Call) and isinstance(n.func, ast.Name) and n.func.id == h.name:
            rr.instances += 1
            st = f.module.parents.get(n)
            while st is not None and not isinstance(st, ast.stmt):
                st = f.module.parents.get(st)
            const_false = any((isinstance(a, ast.Constant) and a.value is False) for a in n.args[1:]) or any(
                k.arg and isinstance(k.value, ast.Constant) and k.value.value is False for k in n.keywords)
            kept = isinstance(st, ast.Assign) and isinstance(st.targets[0], ast.Name)
            ok = kept or const_false
            rr.ob(f.relpath, f.qualname, norm(st)[:80], "the flag returned by the member handler is folded back into the union's "
                  "state (or the call is the final `add str` with literals already off)", DISCHARGED if ok else VIOLATED,
                  "result kept" if kept else ("final str insertion" if const_false else
                  "result discarded: a str inside a nested union no longer suppresses literals passed next to it, so str and "
                  "Literal coexist"), n.lineno)
    return rr


def rule_samples1(ctx: Ctx) -> RuleResult:
    """Every sample given to generate() is converted and merged: none filtered, de-duplicated or reordered."""
    rr = RuleResult("SAMPLES-1", "every sample takes part in the inference, in the order given", floor=2)
    prog = ctx.prog
    gen = prog.func(GEN, "MetadataGenerator.generate")
    conv = prog.func(GEN, "MetadataGenerator._convert")
    vararg = gen.node.args.vararg.arg if gen.node.args.vararg else None
    rr.instances += 1
    ok = False
    why = "no comprehension `[self._convert(data) for data in <samples>]`"
    for n in walk_no_nested(gen.node):
        if isinstance(n, (ast.ListComp, ast.GeneratorExp)) and len(n.generators) == 1 and isinstance(n.elt, ast.Call):
            if conv in [t for t in ctx.cg.resolve_call(gen, gen.module, n.elt) if isinstance(t, FuncInfo)]:
                g0 = n.generators[0]
                ok = norm(g0.iter) in (vararg, f"list({vararg})", f"tuple({vararg})") and not g0.ifs and \
                    norm(n.elt.args[0]) == norm(g0.target)
                why = "" if ok else f"iterates `{norm(g0.iter)}` with filter={bool(g0.ifs)}: samples can be dropped (Python equality " \
                                    f"treats 1 == 1.0 == True, so 'duplicates' are not duplicates for type inference)"
    rr.ob(gen.relpath, gen.qualname, "[self._convert(data) for data in data_variants]", "each sample is converted, none is skipped",
          DISCHARGED if ok else VIOLATED, "all samples, unfiltered" if ok else why, gen.node.lineno)
    # no statement of generate() rebuilds / filters the sample tuple
    rr.instances += 1
    tamper = [n for n in walk_no_nested(gen.node) if isinstance(n, (ast.Assign, ast.AugAssign)) and any(
        isinstance(t, ast.Name) and t.id == vararg for t in (n.targets if isinstance(n, ast.Assign) else [n.target]))]
    loops = [n for n in walk_no_nested(gen.node) if isinstance(n, ast.For) and vararg in names_in(n.iter) and has_escape(n.body)]
    okk = not tamper and not loops
    rr.ob(gen.relpath, gen.qualname, f"*{vararg}", "the sample tuple itself is used as given", DISCHARGED if okk else VIOLATED,
          "not rebuilt" if okk else f"`{norm((tamper + loops)[0])[:60]}` rebuilds or filters the samples", gen.node.lineno)
    return rr


def rule_elem1(ctx: Ctx) -> RuleResult:
    """Every element of a list and every value of a mapping has its type detected: none skipped, none 'de-duplicated'."""
    rr = RuleResult("ELEM-1", "each list element and each mapping value contributes its type", floor=2)
    det = ctx.prog.func(GEN, "MetadataGenerator._detect_type")
    vparam = det.params[1] if det.params and det.params[0] == "self" else det.params[0]
    mod = det.module
    ok_iters = (vparam, f"{vparam}.values()", f"list({vparam})", f"tuple({vparam})", f"list({vparam}.values())",
                f"tuple({vparam}.values())", f"iter({vparam})")
    st = ("the element type T of List[T] / Dict[str, T] is built from the type of every element: skipping one (a filter, a "
          "'seen' set - Python equality makes 1 == 1.0 == True) leaves its type out of T")
    n_sites = 0
    for c in walk_no_nested(det.node):
        if not (isinstance(c, ast.Call) and det in [t for t in ctx.cg.resolve_call(det, mod, c) if isinstance(t, FuncInfo)]):
            continue
        if not c.args:
            continue
        # climb to the iteration construct that feeds this call
        cur, par = c, mod.parents.get(c)
        site = None
        while par is not None and par is not det.node:
            if isinstance(par, (ast.ListComp, ast.GeneratorExp, ast.SetComp)) and par.elt is cur:
                site = par
                break
            if isinstance(par, ast.For):
                site = par
                break
            cur, par = par, mod.parents.get(par)
        if site is None:
            continue
        n_sites += 1
        rr.instances += 1
        if isinstance(site, ast.For):
            it, tgt, ifs = site.iter, site.target, []
        else:
            g0 = site.generators[0]
            it, tgt, ifs = g0.iter, g0.target, g0.ifs if len(site.generators) == 1 else ["nested"]
        problems = []
        it_txt = norm(it)
        if isinstance(it, ast.Name) and it.id != vparam:
            ds = ctx.defs_reaching(det, it, it.id) or []
            if len(ds) == 1 and isinstance(ds[0], (ast.Assign, ast.AnnAssign)) and ds[0].value is not None:
                it_txt = norm(ds[0].value)
        if it_txt not in ok_iters:
            problems.append(f"iterates `{it_txt[:40]}`, not the elements as given")
        if ifs:
            problems.append("the comprehension has a filter")
        if isinstance(site, ast.SetComp):
            problems.append("a set comprehension merges equal types before the union sees them")
        if norm(c.args[0]) != norm(tgt):
            problems.append(f"`{norm(c.args[0])[:30]}` is passed instead of the element")
        if isinstance(site, ast.For):
            # the call must run on every iteration
            top = c
            while mod.parents.get(top) is not site:
                top = mod.parents.get(top)
            idx = site.body.index(top) if top in site.body else None
            if idx is None:
                problems.append("the call is not in the loop body proper")
            else:
                if not isinstance(top, (ast.Expr, ast.Assign, ast.AnnAssign, ast.AugAssign)):
                    problems.append(f"the call sits under `{type(top).__name__.lower()}`: not every element reaches it")
                for prev in site.body[:idx]:
                    if any(isinstance(x, (ast.Continue, ast.Break, ast.Return)) for x in ast.walk(prev)):
                        problems.append(f"`{norm(prev)[:50]}` can skip the element before its type is detected")
                        break
        rr.ob(det.relpath, det.qualname, norm(site)[:90] if not isinstance(site, ast.For) else f"for {norm(tgt)} in {norm(it)}: ...",
              st, VIOLATED if problems else DISCHARGED, "; ".join(problems) if problems else "every element, unfiltered", c.lineno)
    # an object that is a mapping (keys matched --dict-keys-regex, or the field is listed in --dict-keys-fields) is not handed
    # to _convert: _convert treats keys as field names (and looks them up in dict_keys_fields)
    flag = next((a for a in det.params if "convert" in a), None)
    delegated = False
    for c in walk_no_nested(det.node):
        if isinstance(c, ast.Call) and norm(c.func) == "self._convert":
            rr.instances += 1
            under_flag = False
            cur, par = c, mod.parents.get(c)
            while par is not None and par is not det.node:
                if isinstance(par, ast.If) and flag and norm(par.test) == flag and cur in par.body:
                    under_flag = True
                cur, par = par, mod.parents.get(par)
            if not under_flag:
                delegated = True
            rr.ob(det.relpath, det.qualname, norm(c)[:70], "only an object that becomes a model has its keys treated as field names; the "
                  "values of a mapping are detected one by one, whatever their keys are called", DISCHARGED if under_flag else VIOLATED,
                  f"under `if {flag}`" if under_flag else
                  f"`{norm(c)[:40]}` runs for an object that is a mapping: its keys are looked up in dict_keys_fields like field names, so a "
                  f"mapping key that happens to be listed there turns the object under it into a mapping too", c.lineno)
    if n_sites < 2 and not delegated:
        raise AnalysisError(f"ELEM-1: only {n_sites} element-wise detections found in _detect_type (list and mapping expected)")
    return rr


def rule_nf8(ctx: Ctx) -> RuleResult:
    """optimize_type never hands back a component of its argument that it has not simplified."""
    rr = RuleResult("NF-8", "a simplification result contains no unsimplified part of the input", floor=4)
    prog = ctx.prog
    simp = {prog.func(GEN, "MetadataGenerator.optimize_type"), prog.func(GEN, "MetadataGenerator._optimize_union")}
    st = ("every component of a container type passes through optimize_type before it becomes part of the result: a member "
          "handed back as found (a shortcut for the one-member union, say) can itself be a one-member union, a nested "
          "Optional, or int next to float")
    for f in sorted(simp, key=lambda x: x.qualname):
        mod = f.module
        p = [a for a in f.params if a != "self"][0]
        comp_attrs = ("types", "type")
        for r in walk_no_nested(f.node):
            if not (isinstance(r, ast.Return) and r.value is not None):
                continue
            rr.instances += 1
            raw = None
            for x in ast.walk(r.value):
                if isinstance(x, ast.Attribute) and x.attr in comp_attrs and isinstance(x.value, ast.Name) and x.value.id == p:
                    # is it (transitively) an argument of a simplifier call inside the returned expression?
                    cur, par = x, mod.parents.get(x)
                    simplified = False
                    while par is not None and cur is not r.value:
                        if isinstance(par, ast.Call) and cur is not par.func and any(
                                isinstance(t, FuncInfo) and t in simp for t in ctx.cg.resolve_call(f, mod, par)):
                            simplified = True
                            break
                        cur, par = par, mod.parents.get(par)
                    if not simplified:
                        raw = x
            if raw is not None:
                rr.ob(f.relpath, f.qualname, norm(r)[:80], st, VIOLATED,
                      f"`{norm(raw)}` of the argument is returned as found, without going through optimize_type", r.lineno)
            else:
                rr.ob(f.relpath, f.qualname, norm(r)[:80], st, DISCHARGED,
                      "no raw component of the argument in the returned expression", r.lineno)
    return rr


def rule_memo1(ctx: Ctx) -> RuleResult:
    """INFPURE-1: type inference keeps no memory between values: MetadataGenerator's methods do not write to the generator."""
    rr = RuleResult("INFPURE-1", "the type detected for a value does not depend on the values seen before it", floor=4)
    prog = ctx.prog
    gen = prog.cls(GEN, "MetadataGenerator")
    st = ("detection and merging are functions of their arguments and the options fixed by the constructor: a memo or "
          "counter kept on the generator makes the result depend on which sample came first")
    n = 0
    for name, ms in sorted(gen.methods.items()):
        for f in ms:
            if name == "__init__":
                continue
            n += 1
            rr.instances += 1
            bad = [w for w in ctx.effects.events(f) if (w.root == "self" or w.root.startswith("classattr:") or w.root.startswith("global:"))
                   and w.kind in ("attr", "item", "mutcall", "rebind")]
            # nested helpers of the method
            for g in prog.all_funcs():
                if g.parent is f:
                    bad += [w for w in ctx.effects.events(g) if w.root in ("self",) or w.root.startswith("closure:")]
            if bad:
                w = bad[0]
                rr.ob(f.relpath, f.qualname, w.path[:80], st, VIOLATED,
                      f"`{w.path[:50]}` is written while values are processed: later values are typed with what earlier ones "
                      f"left behind", w.line)
            else:
                rr.ob(f.relpath, f.qualname, name, st, DISCHARGED, "writes nothing that outlives the call", f.node.lineno)
    if n < 4:
        raise AnalysisError(f"INFPURE-1: only {n} methods of MetadataGenerator found")
    return rr


def rule_iface1(ctx: Ctx) -> RuleResult:
    """IFACE-1: every IR node class implements the walking / rewriting interface the simplifier and the registry rely on."""
    rr = RuleResult("IFACE-1", "IR node classes agree on the interface: iteration, replace() returning the node, hashing", floor=8)
    prog = ctx.prog
    base = prog.cls("json_to_models/dynamic_typing/base.py", "BaseType")

    def abstract(f: FuncInfo) -> bool:
        body = [s_ for s_ in f.node.body if not (isinstance(s_, ast.Expr) and isinstance(s_.value, ast.Constant))]
        return len(body) == 1 and isinstance(body[0], ast.Raise) and "NotImplementedError" in norm(body[0])

    # string pseudo-types take part in the IR as classes, not as instances: the instance interface is not theirs
    ss = next((c for c in prog.subclasses(base, strict=True) if c.name == "StringSerializable"), None)
    pseudo = set(prog.subclasses(ss)) if ss is not None else set()
    nodes_ = [c for c in prog.subclasses(base, strict=True) if c not in pseudo]
    n = 0
    for k in sorted(nodes_, key=lambda c: c.qualname):
        n += 1
        for meth in ("__iter__", "replace", "to_typing_code"):
            impl = prog.lookup_method(k, meth)
            rr.instances += 1
            ok = bool(impl) and not abstract(impl[0])
            rr.ob(k.module.relpath, k.qualname, f"{k.name}.{meth}", f"`{meth}` is implemented (the simplifier, the registry and the "
                  f"renderer call it on every node)", DISCHARGED if ok else VIOLATED,
                  f"{impl[0].qualname}" if ok else "only the abstract version that raises NotImplementedError is found", k.node.lineno)
        rr.instances += 1
        hs = [prog.lookup_method(k, "to_hash_string"), prog.lookup_method(k, "_to_hash_string")]
        okh = any(h and not abstract(h[0]) and (h[0].cls is not base) for h in hs)
        rr.ob(k.module.relpath, k.qualname, f"{k.name}.to_hash_string", "the node can be hashed for de-duplication inside unions",
              DISCHARGED if okh else VIOLATED, "implemented" if okh else "no concrete _to_hash_string / to_hash_string", k.node.lineno)
    # replace(): returns the node itself on every way out
    for k in nodes_:
        for f in k.methods.get("replace", []):
            if abstract(f):
                continue
            rr.instances += 1
            rets = [r for r in walk_no_nested(f.node) if isinstance(r, ast.Return)]
            cfg = ctx.cfg(f)
            # a path that falls off the end returns None
            falls = any(cfg.nodes[a].stmt is not None and not isinstance(cfg.nodes[a].stmt, (ast.Return, ast.Raise))
                        for a, outs in cfg.succ.items() for b, lab in outs if b == cfg.exit and lab != "exc")
            bad = [r for r in rets if r.value is None or not (norm(r.value) == "self" or (
                isinstance(r.value, ast.Call) and norm(r.value.func).startswith("super()") and norm(r.value.func).endswith(".replace")))]
            ok = bool(rets) and not bad and not falls
            rr.ob(f.relpath, f.qualname, norm(rets[0]) if rets else "replace", "replace() hands back the node it rewrote in place: "
                  "optimize_type returns that value as the simplified type", DISCHARGED if ok else VIOLATED,
                  "returns self on every way out" if ok else
                  ("a path ends without return: the caller receives None as the simplified type" if falls or not rets else
                   f"`{norm(bad[0])}` is not the node itself"), f.node.lineno)
    # containers: replace() writes what __iter__ reads
    for cname, attr in (("SingleType", "type"), ("ComplexType", "types")):
        k = next((c for c in prog.subclasses(base, strict=True) if c.name == cname), None)
        if k is None:
            raise AnalysisError(f"IFACE-1: {cname} vanished")
        rr.instances += 1
        it = k.methods.get("__iter__", [None])[0]
        rp = k.methods.get("replace", [None])[0]
        reads = it is not None and any(isinstance(x, ast.Attribute) and x.attr in (attr, "_" + attr) and norm(x.value) == "self"
                                       for x in ast.walk(it.node))
        writes = rp is not None and any(isinstance(x, ast.Attribute) and x.attr in (attr, "_" + attr) and norm(x.value) == "self"
                                        and isinstance(x.ctx, ast.Store) for x in ast.walk(rp.node))
        rr.ob(k.module.relpath, k.qualname, f"{cname}.{attr}", f"`__iter__` yields and `replace` rewrites the same member (`{attr}`)",
              DISCHARGED if reads and writes else VIOLATED,
              "same member" if reads and writes else f"__iter__ reads it: {reads}; replace writes it: {writes}", k.node.lineno)
    if n < 8:
        raise AnalysisError(f"IFACE-1: only {n} IR node classes found")
    return rr


def rule_nf9(ctx: Ctx) -> RuleResult:
    """NF-9: every container branch of optimize_type simplifies its content on every way out."""
    rr = RuleResult("NF-9", "no container is handed back with unsimplified content", floor=3)
    prog = ctx.prog
    f = prog.func(GEN, "MetadataGenerator.optimize_type")
    simp = {f, prog.func(GEN, "MetadataGenerator._optimize_union")}
    p = [a for a in f.params if a != "self"][0]
    containers = ("DUnion", "DOptional", "SingleType", "ComplexType", "dict", "DList", "DDict", "DTuple")
    st = ("inside the branch for a container type, every return comes after the content went through optimize_type: an early "
          "return for a 'simple' case hands back a fields dict, a union or a list that was never simplified")

    def calls_simplifier(e) -> bool:
        return any(isinstance(x, ast.Call) and any(isinstance(t, FuncInfo) and t in simp for t in ctx.cg.resolve_call(f, f.module, x))
                   for x in ast.walk(e))

    n = 0
    for iff in walk_no_nested(f.node):
        if not isinstance(iff, ast.If):
            continue
        t = norm(iff.test)
        m = [c for c in containers if f"isinstance({p}, {c})" in t or f"isinstance({p}, ({c}" in t]
        if not m:
            continue
        n += 1
        # locals that hold a simplified value
        good_locals = set()
        for x in iff.body:
            for y in ast.walk(x):
                if isinstance(y, ast.Assign) and calls_simplifier(y.value):
                    for tg in y.targets:
                        if isinstance(tg, ast.Name):
                            good_locals.add(tg.id)
                        elif isinstance(tg, ast.Subscript) and isinstance(tg.value, ast.Name):
                            good_locals.add(tg.value.id)
                # D.setdefault(k, <simplified>) / D.update(...) / L.append(<simplified>) fill a local with simplified content as well
                if isinstance(y, ast.Call) and isinstance(y.func, ast.Attribute) and isinstance(y.func.value, ast.Name) and \
                        y.func.attr in ("setdefault", "append", "add") and y.args and calls_simplifier(y.args[-1]):
                    good_locals.add(y.func.value.id)
        changed_ = True
        while changed_:
            changed_ = False
            for x in iff.body:
                for y in ast.walk(x):
                    if isinstance(y, ast.Assign) and any(isinstance(z, ast.Name) and z.id in good_locals for z in ast.walk(y.value)):
                        for tg in y.targets:
                            if isinstance(tg, ast.Name) and tg.id not in good_locals:
                                good_locals.add(tg.id)
                                changed_ = True
        for r in [y for x in iff.body for y in ast.walk(x) if isinstance(y, ast.Return)]:
            rr.instances += 1
            ok = r.value is not None and (calls_simplifier(r.value) or any(
                isinstance(y, ast.Name) and y.id in good_locals for y in ast.walk(r.value)))
            rr.ob(f.relpath, f.qualname, norm(r)[:70], st, DISCHARGED if ok else VIOLATED,
                  f"branch for {m[0]}: the returned value is built from simplified content" if ok else
                  f"branch for {m[0]}: `{norm(r)[:50]}` returns without simplifying what the {m[0]} holds", r.lineno)
    if n < 3:
        raise AnalysisError(f"NF-9: only {n} container branches found in optimize_type")
    return rr


def rule_nf10(ctx: Ctx) -> RuleResult:
    """NF-10: a union found under an Optional member of a union is taken apart, so that its members are categorised too."""
    rr = RuleResult("NF-10", "members of Optional[Union[..]] inside a union are categorised like direct members", floor=1)
    scope = _routing_scope(ctx)
    f = scope[0]
    rr.instances += 1
    st = ("`Union[A, Optional[Union[B, C]]]` is simplified as `Optional[Union[A, B, C]]` in one pass: B and C take part in the "
          "int/float fold, the str / pseudo-type decision and the merging of lists; otherwise every level of such nesting needs "
          "one more pass and a merged model (which gets two) can keep `Union[float, bool, int]` or str next to a pseudo-type")
    unwrap_sites = []
    for g in scope:
        for n in walk_no_nested(g.node):
            if isinstance(n, ast.If) and "isinstance(" in norm(n.test) and "DOptional" in norm(n.test):
                for s_ in n.body:
                    if isinstance(s_, ast.Assign) and isinstance(s_.value, ast.Attribute) and s_.value.attr == "type" and \
                            isinstance(s_.targets[0], ast.Name):
                        unwrap_sites.append((g, n, s_.targets[0].id))
    if not unwrap_sites:
        raise AnalysisError("NF-10: no place unwraps Optional members of a union")
    ok = False
    for g, n, var in unwrap_sites:
        # after the unwrapping, the same function tests the unwrapped member for DUnion and takes its members
        for m in walk_no_nested(g.node):
            if isinstance(m, ast.If) and f"isinstance({var}, DUnion)" in norm(m.test) and m.lineno >= n.lineno:
                body_txt = " ".join(norm(b) for b in m.body)
                if f"{var}.types" in body_txt or "_extract_nested_types" in body_txt:
                    ok = True
                # the union handed on as it is to the member generator, which iterates it (ComplexType.__iter__ yields the members)
                if any(isinstance(c, ast.Call) and c.args and norm(c.args[0]) == var and norm(c.func).split(".")[-1] == g.name
                       for b in m.body for c in ast.walk(b)) and ctx.prog.lookup_method(ctx.prog.cls(
                        "json_to_models/dynamic_typing/complex.py", "ComplexType"), "__iter__"):
                    ok = True
    g, n, var = unwrap_sites[0]
    rr.ob(g.relpath, g.qualname, norm(n.test), st, DISCHARGED if ok else VIOLATED,
          "a union under an Optional contributes its own members" if ok else
          f"`{var}` is unwrapped from Optional and routed as ONE member even when it is a union: its members are not categorised "
          f"(e.g. [null, 's', [1.5, null, true]] next to [[1]] gives List[Optional[Union[float, bool, int]]] through the CLI)", n.lineno)
    return rr


def rule_nf11(ctx: Ctx) -> RuleResult:
    """NF-11: the flag that lets optimize_type enter a model pointer is not handed down the recursion (the documented cycle guard)."""
    rr = RuleResult("NF-11", "re-running the simplification cannot recurse for ever through model pointers", floor=3)
    f = ctx.prog.func(GEN, "MetadataGenerator.optimize_type")
    flag = [a for a in f.params if a not in ("self",)][1:] or []
    if not flag:
        raise AnalysisError("NF-11: optimize_type has no process_model_ptr-like parameter any more")
    fl = flag[0]
    st = (f"`{fl}` applies to the node optimize_type was called on; the recursive calls for its components use the default "
          f"(False), so a pointer met further down is not followed: model graphs may contain cycles (a tree node holding a list of "
          f"tree nodes)")
    n = 0
    for c in walk_no_nested(f.node):
        if isinstance(c, ast.Call) and norm(c.func) == "self.optimize_type":
            n += 1
            rr.instances += 1
            passes = len(c.args) > 1 or any(k.arg == fl or k.arg is None for k in c.keywords)
            rr.ob(f.relpath, f.qualname, norm(c)[:70], st, VIOLATED if passes else DISCHARGED,
                  f"`{fl}` is forwarded: with it set, a cyclic model graph recurses until RecursionError" if passes else
                  "component simplified with the default flag", c.lineno)
    if n < 3:
        raise AnalysisError(f"NF-11: only {n} recursive calls found")
    return rr
