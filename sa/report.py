"""Obligations, rule results, evidence files, known findings, exit-code policy."""
from __future__ import annotations

import json
import os
import time
from dataclasses import dataclass, field
from typing import Callable, Dict, List, Optional, Tuple

VERIF = os.path.dirname(os.path.dirname(os.path.abspath(__file__)))
EVIDENCE_DIR = os.environ.get("J2M_EVIDENCE_DIR") or os.path.join(VERIF, "evidence")

DISCHARGED = "discharged"
ALLOWED = "allowed"
VIOLATED = "violated"
WITHHELD = "withheld"


@dataclass
class Obligation:
    rule: str
    file: str
    qualname: str
    text: str  # normalised construct text (part of the key)
    statement: str  # what is required
    verdict: str
    how: str = ""  # why discharged / what is wrong
    line: int = 0
    witness: Optional[list] = None
    trivial: bool = False

    @property
    def key(self) -> Tuple[str, str, str, str]:
        return (self.rule, self.file, self.qualname, self.text)

    def as_json(self) -> dict:
        d = {"rule": self.rule, "where": f"{self.file}:{self.line}", "function": self.qualname,
             "construct": self.text, "requires": self.statement, "verdict": self.verdict, "how": self.how}
        if self.witness:
            d["witness"] = self.witness
        return d


@dataclass
class RuleResult:
    rule: str
    title: str
    obligations: List[Obligation] = field(default_factory=list)
    instances: int = 0  # anti-vacuity: constructs inspected
    floor: int = 0  # minimum confirmed by hand on the pinned tree
    analysed: List[str] = field(default_factory=list)  # functions / tables visited
    notes: List[str] = field(default_factory=list)
    stale_allow: List[str] = field(default_factory=list)
    consulted: List[str] = field(default_factory=list)  # anchor functions the rule looked up by name (file::qualname)

    def ob(self, fi_or_file, qualname_or_node, text, statement, verdict, how="", line=0, witness=None,
           trivial=False) -> Obligation:
        o = Obligation(self.rule, fi_or_file, qualname_or_node, text, statement, verdict, how, line, witness, trivial)
        self.obligations.append(o)
        return o


class Reporter:
    """Collects rule results for one property and turns them into stdout lines, evidence and an exit code."""

    def __init__(self, prop: str, tier: str, seed: int, root: str):
        self.prop = prop
        self.tier = tier
        self.seed = seed
        self.root = root
        self.results: List[RuleResult] = []
        self.errors: List[str] = []
        self.t0 = time.time()
        self.extra: Dict[str, object] = {}
        self.gate = None          # sa.shapegate.Gate, set by check.py once the program is loaded

    def add(self, rr: RuleResult):
        self.results.append(rr)

    def known_findings(self) -> List[dict]:
        p = os.path.join(VERIF, "known_findings.json")
        if not os.path.isfile(p):
            return []
        with open(p) as f:
            return json.load(f)

    def finish(self, meta: dict) -> int:
        known = [k for k in self.known_findings() if k.get("status") == "known"]
        known_keys = {tuple(k["key"]): k for k in known}
        violations: List[Obligation] = []
        known_hits: List[Obligation] = []
        for rr in self.results:
            if rr.instances < rr.floor:
                self.errors.append(f"rule {rr.rule}: only {rr.instances} instances found, "
                                   f"{rr.floor} confirmed by hand on the pinned tree (anti-vacuity floor)")
            for o in rr.obligations:
                if o.verdict == VIOLATED:
                    if o.key in known_keys and known_keys[o.key].get("property") in (self.prop, None):
                        known_hits.append(o)
                        continue
                    why = None
                    if self.gate is not None:
                        from .shapegate import SHAPE_INDEPENDENT
                        if o.rule not in SHAPE_INDEPENDENT:
                            why = self.gate.restructured(o.file, o.qualname, getattr(rr, "consulted", ()))
                    if why:
                        # the rule recognises a way of implementing the clause; on a restructured function its report is no
                        # evidence of a defect: fail closed instead of raising an alarm
                        o.verdict = WITHHELD
                        o.how = f"{o.how} [verdict withheld: {why}]"
                        msg = (f"rule {o.rule}: verdict withheld on {o.file}::{o.qualname} - {why}; the rule was validated on the "
                               f"earlier shape and cannot tell a defect from a refactoring here (it reported: {o.how[:160]})")
                        if msg not in self.errors:
                            self.errors.append(msg)
                    else:
                        violations.append(o)
        lines = []
        replay_dir = os.path.join(EVIDENCE_DIR, "replay")
        os.makedirs(replay_dir, exist_ok=True)
        printed = set()
        for o in known_hits:
            if o.key in printed:
                continue
            printed.add(o.key)
            lines.append(f"KNOWN-FINDING: property={self.prop} {o.rule} {o.file}::{o.qualname} `{o.text}` "
                         f"- {known_keys[o.key].get('fails', '')}")
        n = 0
        for o in violations:
            n += 1
            path = os.path.join(replay_dir, f"{self.prop}-{n}.json")
            with open(path, "w") as f:
                json.dump({"property": self.prop, "root": self.root, **o.as_json(), "key": list(o.key)}, f, indent=1)
            lines.append(f"VIOLATION property={self.prop} replay={path}")
            lines.append(f"  {o.rule} at {o.file}:{o.line} in {o.qualname}: `{o.text}`")
            lines.append(f"    requires: {o.statement}")
            lines.append(f"    found:    {o.how}")
            if o.witness:
                for w in o.witness[:12]:
                    lines.append(f"      via {w}")
        for e in self.errors:
            lines.append(f"ANALYSIS-ERROR property={self.prop} {e}")
        total = sum(len(r.obligations) for r in self.results)
        disch = sum(1 for r in self.results for o in r.obligations if o.verdict in (DISCHARGED, ALLOWED))
        nontrivial_keys = {o.key for r in self.results for o in r.obligations if not o.trivial}
        # evidence ------------------------------------------------------------------------------------
        samples = []
        for r in self.results:
            for o in r.obligations[:3]:
                samples.append(o.as_json())
        for o in violations + known_hits:
            samples.append(o.as_json())
        rules_ev = {}
        for r in self.results:
            rules_ev[r.rule] = {
                "title": r.title, "instances": r.instances, "floor": r.floor, "obligations": len(r.obligations),
                "discharged": sum(1 for o in r.obligations if o.verdict == DISCHARGED),
                "allowed": [{"construct": o.text, "where": f"{o.file}::{o.qualname}", "reason": o.how}
                            for o in r.obligations if o.verdict == ALLOWED],
                "violated": [o.as_json() for o in r.obligations if o.verdict == VIOLATED],
                "analysed": r.analysed, "notes": r.notes,
            }
            if r.stale_allow:
                rules_ev[r.rule]["stale_allow_entries"] = r.stale_allow
        cov = {
            "explanation": meta.get("explanation", ""),
            "obligations": total,
            "discharged": disch,
            "evaluations": max(total, 1),
            "distinct_nontrivial": len(nontrivial_keys),
            "rule": "one obligation per (rule, file, enclosing function, normalised construct); non-trivial = the "
                    "rule had to inspect the construct's guards / flow / table entries (not a bare existence check); "
                    "distinct = distinct construct keys",
            "samples": samples[:40],
            "rules": rules_ev,
            "checker_cmd": f"/venv/bin/python check.py {self.prop} --tier {self.tier}",
            "trusted_base": meta.get("trusted_base", []),
            "known_findings_hit": [list(o.key) for o in known_hits],
            "analysis_errors": self.errors,
            "exhaustive": True,
        }
        if self.gate is not None:
            cov["shape_gate"] = self.gate.summary()
            cov["shape_gate"]["verdicts_withheld"] = [o.as_json() for r in self.results for o in r.obligations if o.verdict == WITHHELD]
        cov.update(self.extra)
        ev = {
            "property_id": self.prop, "tier": self.tier, "seed": self.seed, "level": "other",
            "coverage": cov, "assumptions": meta.get("assumptions", []),
            "wall_s": round(time.time() - self.t0, 3), "violations": len(violations),
        }
        os.makedirs(EVIDENCE_DIR, exist_ok=True)
        with open(os.path.join(EVIDENCE_DIR, f"{self.prop}.json"), "w") as f:
            json.dump(ev, f, indent=1, default=str)
        for ln in lines:
            print(ln)
        print(f"{self.prop} [{self.tier}] rules={len(self.results)} obligations={total} discharged={disch} "
              f"violations={len(violations)} known={len(known_hits)} errors={len(self.errors)} "
              f"wall={ev['wall_s']}s")
        if violations:
            return 1
        if self.errors:
            return 2
        return 0
