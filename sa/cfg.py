"""E1 - statement-level control-flow graph with exceptional edges, dominators and path queries."""
from __future__ import annotations

import ast
from typing import Callable, Dict, Iterable, List, Optional, Set, Tuple

from .model import AnalysisError

ENTRY, EXIT, RAISE = "ENTRY", "EXIT", "RAISE"


class Node:
    __slots__ = ("id", "kind", "stmt", "label")

    def __init__(self, id_: int, kind: str, stmt: Optional[ast.AST], label: str = ""):
        self.id = id_
        self.kind = kind  # stmt | if | for | while | with | with_exit | handler | ENTRY | EXIT | RAISE | join
        self.stmt = stmt
        self.label = label

    def __repr__(self):
        ln = getattr(self.stmt, "lineno", "")
        return f"<{self.id}:{self.kind}@{ln}>"


class CFG:
    def __init__(self, func: ast.AST):
        self.func = func
        self.nodes: List[Node] = []
        self.succ: Dict[int, List[Tuple[int, str]]] = {}  # id -> [(id, label)] label in '', 'T', 'F', 'exc', 'back'
        self.entry = self._new(ENTRY, None).id
        self.exit = self._new(EXIT, None).id
        self.raise_exit = self._new(RAISE, None).id
        self.node_of_stmt: Dict[int, int] = {}  # id(stmt) -> node id (header node for compounds)
        self._handlers_stack: List[List[int]] = []
        self._loop_stack: List[Tuple[int, int]] = []  # (continue target, break target)
        self._finally_stack: List = []
        body = func.body if not isinstance(func, ast.Lambda) else [ast.Expr(func.body)]
        last = self._seq(body, [self.entry])
        for n in last:
            self._edge(n, self.exit)

    # -- construction -----------------------------------------------------------------------------
    def _new(self, kind, stmt, label="") -> Node:
        n = Node(len(self.nodes), kind, stmt, label)
        self.nodes.append(n)
        self.succ[n.id] = []
        return n

    def _edge(self, a: int, b: int, label: str = ""):
        if (b, label) not in self.succ[a]:
            self.succ[a].append((b, label))

    def _exc_targets(self) -> List[int]:
        return self._handlers_stack[-1] if self._handlers_stack else [self.raise_exit]

    def _add_exc(self, n: int):
        for h in self._exc_targets():
            self._edge(n, h, "exc")

    def _seq(self, body: List[ast.stmt], preds: List[int]) -> List[int]:
        """Wire a statement list after ``preds``; returns the dangling normal exits."""
        cur = list(preds)
        for st in body:
            cur = self._stmt(st, cur)
        return cur

    def _stmt(self, st: ast.stmt, preds: List[int]) -> List[int]:
        if isinstance(st, ast.If):
            h = self._new("if", st)
            self.node_of_stmt[id(st)] = h.id
            for p in preds:
                self._edge(p, h.id)
            self._add_exc_if_in_try(h.id)
            t_in = self._new("join", None, "then")
            f_in = self._new("join", None, "else")
            self._edge(h.id, t_in.id, "T")
            self._edge(h.id, f_in.id, "F")
            t_out = self._seq(st.body, [t_in.id])
            f_out = self._seq(st.orelse, [f_in.id])
            return t_out + f_out
        if isinstance(st, (ast.For, ast.AsyncFor, ast.While)):
            h = self._new("for" if not isinstance(st, ast.While) else "while", st)
            self.node_of_stmt[id(st)] = h.id
            for p in preds:
                self._edge(p, h.id)
            self._add_exc_if_in_try(h.id)
            after = self._new("join", None, "after-loop")
            b_in = self._new("join", None, "loop-body")
            e_in = self._new("join", None, "loop-else")
            self._edge(h.id, b_in.id, "T")
            self._edge(h.id, e_in.id, "F")
            self._loop_stack.append((h.id, after.id))
            b_out = self._seq(st.body, [b_in.id])
            self._loop_stack.pop()
            for n in b_out:
                self._edge(n, h.id, "back")
            e_out = self._seq(st.orelse, [e_in.id])
            for n in e_out:
                self._edge(n, after.id)
            return [after.id]
        if isinstance(st, (ast.With, ast.AsyncWith)):
            h = self._new("with", st)
            self.node_of_stmt[id(st)] = h.id
            for p in preds:
                self._edge(p, h.id)
            self._add_exc_if_in_try(h.id)
            x = self._new("with_exit", st)
            # exceptions in the body pass through __exit__ and then propagate outward
            outer = self._exc_targets()
            self._handlers_stack.append([x.id])
            b_out = self._seq(st.body, [h.id])
            self._handlers_stack.pop()
            for n in b_out:
                self._edge(n, x.id)
            for o in outer:
                self._edge(x.id, o, "exc")
            return [x.id]
        if isinstance(st, ast.Try):
            handler_nodes = []
            for hd in st.handlers:
                hn = self._new("handler", hd)
                self.node_of_stmt[id(hd)] = hn.id
                handler_nodes.append(hn)
            outer = self._exc_targets()
            # uncaught exception types also propagate outward (handlers name specific types)
            catches_all = any(hd.type is None or (isinstance(hd.type, ast.Name) and hd.type.id in
                                                  ("Exception", "BaseException")) for hd in st.handlers)
            targets = [h.id for h in handler_nodes] + ([] if catches_all else list(outer))
            self._handlers_stack.append(targets)
            b_out = self._seq(st.body, preds)
            self._handlers_stack.pop()
            e_out = self._seq(st.orelse, b_out) if st.orelse else b_out
            outs = list(e_out)
            for hn, hd in zip(handler_nodes, st.handlers):
                outs += self._seq(hd.body, [hn.id])
            if st.finalbody:
                f_in = self._new("join", None, "finally")
                for n in outs:
                    self._edge(n, f_in.id)
                # exceptional entry into finally
                for hn in handler_nodes:
                    pass
                outs = self._seq(st.finalbody, [f_in.id])
            return outs
        # simple statements
        n = self._new("stmt", st)
        self.node_of_stmt[id(st)] = n.id
        for p in preds:
            self._edge(p, n.id)
        if isinstance(st, ast.Return):
            self._add_exc_if_in_try(n.id)
            self._edge(n.id, self.exit, "return")
            return []
        if isinstance(st, ast.Raise):
            for h in self._exc_targets():
                self._edge(n.id, h, "exc")
            return []
        if isinstance(st, ast.Continue):
            if not self._loop_stack:
                raise AnalysisError("continue outside loop")
            self._edge(n.id, self._loop_stack[-1][0], "back")
            return []
        if isinstance(st, ast.Break):
            self._edge(n.id, self._loop_stack[-1][1], "break")
            return []
        if isinstance(st, (ast.FunctionDef, ast.AsyncFunctionDef, ast.ClassDef, ast.Pass, ast.Import,
                           ast.ImportFrom, ast.Global, ast.Nonlocal)):
            return [n.id]
        if isinstance(st, (ast.Match,)):
            raise AnalysisError("match statement not modelled")
        self._add_exc_if_in_try(n.id)
        return [n.id]

    def _add_exc_if_in_try(self, n: int):
        """A statement that can raise (contains a call, subscript, attribute access...) inside try/with."""
        node = self.nodes[n]
        st = node.stmt
        exprs: List[ast.AST] = []
        if node.kind == "if":
            exprs = [st.test]
        elif node.kind == "for":
            exprs = [st.iter]
        elif node.kind == "while":
            exprs = [st.test]
        elif node.kind == "with":
            exprs = [i.context_expr for i in st.items]
        else:
            exprs = [st]
        can_raise = any(isinstance(x, (ast.Call, ast.Subscript, ast.Attribute, ast.BinOp, ast.Await, ast.Delete,
                                       ast.Starred, ast.For, ast.comprehension))
                        for e in exprs for x in ast.walk(e))
        if can_raise:
            for h in self._exc_targets():
                self._edge(n, h, "exc")

    # -- queries -------------------------------------------------------------------------------------
    def preds(self) -> Dict[int, List[int]]:
        p: Dict[int, List[int]] = {n.id: [] for n in self.nodes}
        for a, outs in self.succ.items():
            for b, _ in outs:
                p[b].append(a)
        return p

    def reachable_from(self, start: int, labels_excluded: Iterable[str] = ()) -> Set[int]:
        ex = set(labels_excluded)
        seen = set()
        st = [start]
        while st:
            a = st.pop()
            if a in seen:
                continue
            seen.add(a)
            for b, l in self.succ[a]:
                if l not in ex:
                    st.append(b)
        return seen

    def dominators(self, entry: Optional[int] = None, exclude_exc: bool = False) -> Dict[int, Set[int]]:
        entry = self.entry if entry is None else entry
        ids = sorted(self.reachable_from(entry, ("exc",) if exclude_exc else ()))
        allset = set(ids)
        dom = {n: set(allset) for n in ids}
        dom[entry] = {entry}
        preds = self.preds()
        if exclude_exc:
            preds = {n: [p for p in ps if (n, "exc") not in self.succ[p] or any(
                b == n and l != "exc" for b, l in self.succ[p])] for n, ps in preds.items()}
        changed = True
        while changed:
            changed = False
            for n in ids:
                if n == entry:
                    continue
                ps = [p for p in preds[n] if p in allset]
                new = set(allset)
                for p in ps:
                    new &= dom[p]
                new = new | {n}
                if new != dom[n]:
                    dom[n] = new
                    changed = True
        return dom

    def postdominators(self, exits: Optional[Iterable[int]] = None) -> Dict[int, Set[int]]:
        """Post-dominators with respect to the normal exit (exceptional exits ignored unless given)."""
        exits = [self.exit] if exits is None else list(exits)
        rev: Dict[int, List[int]] = {n.id: [] for n in self.nodes}
        for a, outs in self.succ.items():
            for b, l in outs:
                rev[b].append(a)
        virt = -1
        ids = [n.id for n in self.nodes]
        allset = set(ids) | {virt}
        pdom = {n: set(allset) for n in ids}
        pdom[virt] = {virt}
        succs = {n: [b for b, _ in self.succ[n]] for n in ids}
        for e in exits:
            succs[e] = succs[e] + [virt]
        # nodes that cannot reach an exit keep the full set (treated as vacuous)
        changed = True
        while changed:
            changed = False
            for n in ids:
                ss = succs[n]
                if not ss:
                    continue
                new = set(allset)
                for s in ss:
                    new &= pdom[s]
                new |= {n}
                if new != pdom[n]:
                    pdom[n] = new
                    changed = True
        return pdom

    def stmt_node(self, st: ast.AST) -> int:
        nid = self.node_of_stmt.get(id(st))
        if nid is None:
            raise AnalysisError(f"statement at line {getattr(st, 'lineno', '?')} not in CFG")
        return nid

    def node_containing(self, expr: ast.AST, parents: Dict[ast.AST, ast.AST]) -> int:
        """CFG node of the statement (or compound header) that evaluates ``expr``."""
        cur = expr
        while cur is not None:
            if id(cur) in self.node_of_stmt:
                nid = self.node_of_stmt[id(cur)]
                node = self.nodes[nid]
                if node.kind in ("if", "while"):
                    if _contains(node.stmt.test, expr):
                        return nid
                elif node.kind == "for":
                    if _contains(node.stmt.iter, expr) or _contains(node.stmt.target, expr):
                        return nid
                elif node.kind == "with":
                    if any(_contains(i.context_expr, expr) or (i.optional_vars is not None and
                                                              _contains(i.optional_vars, expr))
                           for i in node.stmt.items):
                        return nid
                elif node.kind == "handler":
                    pass
                else:
                    return nid
            cur = parents.get(cur)
        raise AnalysisError(f"expression at line {getattr(expr, 'lineno', '?')} not in CFG")

    def paths(self, start: int, stop: Set[int], limit: int = 4096, follow_exc: bool = False,
              follow_back: bool = False) -> List[List[Tuple[int, str]]]:
        """All simple paths from start to any node in ``stop`` (edges labelled); bounded."""
        out: List[List[Tuple[int, str]]] = []
        stack: List[Tuple[int, List[Tuple[int, str]], frozenset]] = [(start, [(start, "")], frozenset([start]))]
        while stack:
            n, path, seen = stack.pop()
            if n in stop and len(path) > 1:
                out.append(path)
                if len(out) > limit:
                    raise AnalysisError(f"path cap {limit} exceeded")
                continue
            for b, l in self.succ[n]:
                if l == "exc" and not follow_exc:
                    continue
                if l == "back" and not follow_back and b not in stop:
                    continue
                if b in seen and b not in stop:
                    continue
                stack.append((b, path + [(b, l)], seen | {b}))
        return out


def _contains(root: ast.AST, node: ast.AST) -> bool:
    return any(x is node for x in ast.walk(root))


def build_cfg(func_node: ast.AST) -> CFG:
    return CFG(func_node)


def _stored_names(node: Node) -> Set[str]:
    """Local names (re)bound by the CFG node's own statement/header (not by nested bodies or comprehensions)."""
    st = node.stmt
    out: Set[str] = set()
    if st is None:
        return out

    def targets_of(t):
        for x in ast.walk(t):
            if isinstance(x, ast.Name) and isinstance(x.ctx, (ast.Store, ast.Del)):
                out.add(x.id)

    def walk_expr(e):
        stack = [e]
        while stack:
            x = stack.pop()
            if isinstance(x, (ast.ListComp, ast.SetComp, ast.DictComp, ast.GeneratorExp, ast.Lambda)):
                continue
            if isinstance(x, ast.NamedExpr) and isinstance(x.target, ast.Name):
                out.add(x.target.id)
            stack.extend(ast.iter_child_nodes(x))

    if node.kind == "for":
        targets_of(st.target)
    elif node.kind == "with":
        for i in st.items:
            if i.optional_vars is not None:
                targets_of(i.optional_vars)
    elif node.kind == "handler":
        if st.name:
            out.add(st.name)
    elif node.kind in ("if", "while"):
        walk_expr(st.test)
    elif node.kind == "stmt":
        if isinstance(st, ast.Assign):
            for t in st.targets:
                targets_of(t)
            walk_expr(st.value)
        elif isinstance(st, (ast.AugAssign, ast.AnnAssign)):
            if not (isinstance(st, ast.AnnAssign) and st.value is None):
                targets_of(st.target)
        elif isinstance(st, ast.Delete):
            for t in st.targets:
                targets_of(t)
        elif isinstance(st, (ast.FunctionDef, ast.AsyncFunctionDef, ast.ClassDef)):
            out.add(st.name)
        elif isinstance(st, (ast.Import, ast.ImportFrom)):
            for a in st.names:
                out.add((a.asname or a.name).split(".")[0])
        elif isinstance(st, ast.Expr):
            walk_expr(st.value)
    return out


def reaching_defs(cfg: CFG) -> Dict[int, Dict[str, Set[int]]]:
    """IN sets: node id -> {name: {defining node ids}}; parameters are defined at ENTRY."""
    gen: Dict[int, Set[str]] = {n.id: _stored_names(n) for n in cfg.nodes}
    params: Set[str] = set()
    f = cfg.func
    if hasattr(f, "args"):
        a = f.args
        params = {p.arg for p in a.posonlyargs + a.args + a.kwonlyargs}
        if a.vararg:
            params.add(a.vararg.arg)
        if a.kwarg:
            params.add(a.kwarg.arg)
    gen[cfg.entry] = params
    preds = cfg.preds()
    IN: Dict[int, Dict[str, Set[int]]] = {n.id: {} for n in cfg.nodes}
    OUT: Dict[int, Dict[str, Set[int]]] = {n.id: {} for n in cfg.nodes}
    work = [n.id for n in cfg.nodes]
    while work:
        n = work.pop(0)
        new_in: Dict[str, Set[int]] = {}
        for p in preds[n]:
            for k, v in OUT[p].items():
                new_in.setdefault(k, set()).update(v)
        IN[n] = new_in
        new_out = {k: set(v) for k, v in new_in.items()}
        for name in gen[n]:
            new_out[name] = {n}
        if new_out != OUT[n]:
            OUT[n] = new_out
            for b, _ in cfg.succ[n]:
                if b not in work:
                    work.append(b)
    return IN
