"""Thorough-tier extensions: sibling clients, table validation, self-validation battery (recorded, never alters exit)."""
from __future__ import annotations


def extend(pid, ctx, rep):
    rep.extra["thorough"] = {"note": "same deciding analysis as quick; extensions are added per property below"}
