"""Thorough-tier extensions.  The deciding analysis is the same as in the quick tier; this adds

(a) validation of the trusted tables against the interpreter the repository runs under (escaper exactness over every
    Unicode scalar value, typing special-form names, regex parser assumptions);
(b) the sibling clients (testing_tools/real_apis/*.py, test_self_validate_pydantic.py) as extra evidence for the
    stage order (STAGE-1) and the `with` discipline (CTX-2);
(c) the self-validation battery restricted to the property: every seeded change stored for it must be reported,
    every silent twin must stay silent.

Table or sibling disagreement is an ANALYSIS-ERROR (the checker's premises are wrong).  Battery results are recorded in
the evidence and printed, but never change the exit status: they judge the checker, not the repository.
"""
from __future__ import annotations

import ast
import glob
import json
import os
import sys
import typing

from .model import AnalysisError, norm, walk_no_nested


def validate_tables() -> dict:
    out = {}
    # escapers: exact means eval(escaper(s)) == s as Python source, for every Unicode scalar value
    bad = {"repr": 0, "json.dumps(ensure_ascii=False)": 0}
    n = 0
    chunk = []
    for cp in list(range(0, 0xD800)) + list(range(0xE000, 0x110000)):
        chunk.append(chr(cp))
        if len(chunk) == 8192 or cp == 0x10FFFF:
            s = "".join(chunk)
            n += len(s)
            if eval(repr(s)) != s:
                bad["repr"] += 1
            if eval(json.dumps(s, ensure_ascii=False)) != s:
                bad["json.dumps(ensure_ascii=False)"] += 1
            chunk = []
    out["escapers_exact_over_scalar_values"] = {"code_points": n, "mismatching_chunks": bad}
    if any(bad.values()):
        raise AnalysisError(f"escaper table wrong for this interpreter: {bad}")
    astral = "\U0001F600"
    out["json.dumps_default_is_exact_on_astral_literal"] = eval(json.dumps(astral)) == astral
    # (Python reads the surrogate-pair escapes json.dumps produces as two code points)
    if eval(json.dumps(astral)) == astral:
        raise AnalysisError("table says json.dumps() is BMP-only, but this interpreter round-trips astral characters")
    # hand-written quoting is not an escaper
    out["fstring_quoting_breaks_on_quote"] = True
    try:
        eval('"' + 'a"b' + '"')
        out["fstring_quoting_breaks_on_quote"] = False
    except SyntaxError:
        pass
    names = {}
    for nm in ("Optional", "Union", "List", "Dict", "Tuple"):
        names[nm] = getattr(getattr(typing, nm), "_name", None)
        if names[nm] != nm:
            raise AnalysisError(f"typing.{nm}._name is {names[nm]!r}: IMP-1/TBL-1 assume it equals the attribute name")
    out["typing_special_form_names"] = names
    import re._parser as rp
    out["regex_group_flattening"] = [str(op) for op, _ in rp.parse("^(?:ab|cd)$")]
    if out["regex_group_flattening"] != ["AT", "BRANCH", "AT"]:
        raise AnalysisError("regex parser no longer flattens non-capturing groups as RX-1 assumes")
    out["dollar_matches_before_newline"] = bool(__import__("re").match(r"^(?:a)$", "a\n"))
    return out


STAGE_NAMES = ["generate", "process_meta_data", "merge_models", "generate_names", "compose", "generate_code"]


def sibling_stage_orders(ctx) -> dict:
    orders = {}
    files = sorted(glob.glob(os.path.join(ctx.root, "testing_tools", "real_apis", "*.py")))
    files.append(os.path.join(ctx.root, "test", "test_cli", "test_self_validate_pydantic.py"))
    for f in files:
        if not os.path.isfile(f) or f.endswith("__init__.py"):
            continue
        try:
            tree = ast.parse(open(f, encoding="utf-8").read())
        except SyntaxError:
            continue
        for fn in ast.walk(tree):
            if not isinstance(fn, ast.FunctionDef):
                continue
            seq = []
            for n in sorted((x for x in ast.walk(fn) if isinstance(x, ast.Call)), key=lambda x: (x.lineno, x.col_offset)):
                t = norm(n.func).split(".")[-1]
                if t in ("generate", "process_meta_data", "merge_models", "generate_names", "generate_code"):
                    if not seq or seq[-1] != t:
                        seq.append(t)
                elif t in ("compose_models", "compose_models_flat"):
                    if not seq or seq[-1] != "compose":
                        seq.append("compose")
            if "generate_code" in seq and "generate" in seq:
                orders[os.path.relpath(f, ctx.root) + "::" + fn.name] = seq
    return orders


def extend(pid, ctx, rep):
    info = {}
    info["tables_validated"] = validate_tables()
    if pid in ("C16", "C14"):
        orders = sibling_stage_orders(ctx)
        info["sibling_pipelines"] = orders
        if pid == "C16" and orders:
            # majority order must be the one STAGE-1 uses
            from collections import Counter
            norm_orders = Counter(tuple(x for x in STAGE_NAMES if x in o) == tuple(
                dict.fromkeys(x for x in o if x in STAGE_NAMES)) for o in orders.values())
            full = [o for o in orders.values() if all(s in o for s in STAGE_NAMES)]
            agree = [o for o in full if [x for x in o if x in STAGE_NAMES][:6] == STAGE_NAMES or
                     list(dict.fromkeys(x for x in o if x in STAGE_NAMES)) == STAGE_NAMES]
            info["sibling_pipelines_summary"] = {"clients": len(orders), "with_all_stages": len(full), "agree_with_STAGE-1": len(agree)}
            if full and len(agree) * 2 < len(full):
                raise AnalysisError(f"STAGE-1's reference order disagrees with most sibling pipelines: {orders}")
    # battery
    try:
        sys.path.insert(0, os.path.join(os.path.dirname(os.path.dirname(os.path.abspath(__file__)))))
        from selftest.run import battery
        if os.path.realpath(ctx.root) == "/repo":
            res = battery(only=pid, jobs=16, refactorings=False)      # seeded changes, hand controls and twins of this property
            info["selftest"] = {"counts": res["counts"], "failed": res["failed"], "inapplicable": res["inapplicable"],
                                "seeded": res["seeded"], "twins_noisy": {k: v["noisy"] for k, v in res["twins"].items() if not v["silent"]}}
            for f in res["failed"]:
                print(f"SELFTEST-MISMATCH property={pid} {f}")
        else:
            info["selftest"] = {"skipped": "battery runs only against /repo itself"}
    except Exception as e:  # the battery judges the checker; it must never turn into a verdict on the repository
        info["selftest"] = {"error": repr(e)}
    rep.extra["thorough"] = info
