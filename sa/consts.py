"""E4 - constant folding of string expressions, Jinja template splitting, fragment identifiers, regex holes."""
from __future__ import annotations

import ast
import io
import keyword
import re
import tokenize
from typing import Dict, List, Optional, Set, Tuple, Union

from .model import ClassInfo, ConstRef, External, FuncInfo, Module, Program, norm

HOLE = "\x00HOLE"  # marker inside folded text for a non-constant part


class Folder:
    """Folds expressions to Python constants where every leaf is a literal or a named module/class constant."""

    def __init__(self, prog: Program):
        self.prog = prog

    def fold(self, mod: Module, expr: ast.AST, cls: Optional[ClassInfo] = None, env: Optional[dict] = None,
             depth: int = 0):
        """Return the constant value or raise ValueError."""
        if depth > 12:
            raise ValueError("fold depth")
        env = env or {}
        f = lambda e: self.fold(mod, e, cls, env, depth + 1)
        if isinstance(expr, ast.Constant):
            return expr.value
        if isinstance(expr, ast.Name):
            if expr.id in env:
                return env[expr.id]
            if cls is not None:
                c = self.prog.lookup_class_attr(cls, expr.id)
                if c is not None and c.value is not None:
                    return self.fold(c.module, c.value, c.cls, None, depth + 1)
            r = self.prog.resolve_global(mod, expr.id)
            if isinstance(r, ConstRef) and r.value is not None:
                if len(r.module.assigns.get(r.name, [])) > 1:
                    raise ValueError(f"{expr.id} assigned more than once")
                return self.fold(r.module, r.value, None, None, depth + 1)
            if isinstance(r, External) and r.dotted in ("builtins.True", "builtins.False", "builtins.None"):
                return {"True": True, "False": False, "None": None}[expr.id]
            raise ValueError(f"name {expr.id} is not a constant")
        if isinstance(expr, ast.Attribute):
            r = self.prog.resolve_class_expr(mod, expr, cls)
            if isinstance(r, ConstRef) and r.value is not None:
                return self.fold(r.module, r.value, r.cls, None, depth + 1)
            raise ValueError(f"attribute {norm(expr)} is not a constant")
        if isinstance(expr, ast.JoinedStr):
            out = ""
            for v in expr.values:
                if isinstance(v, ast.Constant):
                    out += str(v.value)
                elif isinstance(v, ast.FormattedValue):
                    val = f(v.value)
                    spec = ""
                    if v.format_spec is not None:
                        spec = f(v.format_spec)
                    if v.conversion == 114:
                        val = repr(val)
                    elif v.conversion == 115:
                        val = str(val)
                    out += format(val, spec)
            return out
        if isinstance(expr, ast.BinOp):
            l, r = f(expr.left), f(expr.right)
            if isinstance(expr.op, ast.Add):
                return l + r
            if isinstance(expr.op, ast.Mod):
                return l % r
            if isinstance(expr.op, ast.Mult):
                return l * r
            if isinstance(expr.op, ast.BitOr):
                return l | r
            if isinstance(expr.op, ast.Sub):
                return l - r
            if isinstance(expr.op, ast.Div):
                return l / r
            raise ValueError("binop")
        if isinstance(expr, ast.Tuple):
            return tuple(f(e) for e in expr.elts)
        if isinstance(expr, ast.List):
            return [f(e) for e in expr.elts]
        if isinstance(expr, ast.Set):
            return frozenset(f(e) for e in expr.elts)
        if isinstance(expr, ast.Dict):
            return {f(k): f(v) for k, v in zip(expr.keys, expr.values)}
        if isinstance(expr, ast.UnaryOp) and isinstance(expr.op, ast.USub):
            return -f(expr.operand)
        if isinstance(expr, ast.UnaryOp) and isinstance(expr.op, ast.Not):
            return not f(expr.operand)
        if isinstance(expr, ast.Call):
            fn = expr.func
            if isinstance(fn, ast.Attribute) and fn.attr in ("replace", "strip", "lstrip", "rstrip", "lower",
                                                               "upper", "format", "join", "keys"):
                base = f(fn.value)
                args = [f(a) for a in expr.args]
                if fn.attr == "keys" and isinstance(base, dict):
                    return list(base.keys())
                if isinstance(base, str):
                    if fn.attr == "format" and expr.keywords:
                        raise ValueError("format kw")
                    return getattr(base, fn.attr)(*args)
            if isinstance(fn, ast.Name) and fn.id in ("frozenset", "set", "tuple", "list", "str", "int", "len") \
                    and len(expr.args) <= 1 and not expr.keywords:
                args = [f(a) for a in expr.args]
                v = {"frozenset": frozenset, "set": frozenset, "tuple": tuple, "list": list, "str": str,
                     "int": int, "len": len}[fn.id](*args)
                return v
            # the repository's own template() helper: dedent like the real one and return the text
            r = self.prog.resolve_class_expr(mod, fn, cls)
            if isinstance(r, FuncInfo) and r.name == "template" and expr.args:
                return Template(dedent_like_repo(f(expr.args[0])))
            raise ValueError(f"call {norm(fn)} not foldable")
        if isinstance(expr, ast.Subscript):
            base = f(expr.value)
            idx = f(expr.slice)
            return base[idx]
        raise ValueError(f"{type(expr).__name__} not foldable")

    def try_fold(self, mod, expr, cls=None, env=None):
        try:
            return self.fold(mod, expr, cls, env)
        except (ValueError, TypeError, KeyError, IndexError, AttributeError):
            return None


class Template(str):
    """Folded text of a jinja2 Template(...) constant."""


def dedent_like_repo(pattern: str, indent: str = "    ") -> str:
    """Mirror of json_to_models.models.base.template()'s text processing (checked against its AST by TPL-0)."""
    if "\n" in pattern:
        n = len(indent)
        lines = pattern.split("\n")
        for i in (0, -1):
            if not lines[i].strip():
                del lines[i]
        pattern = "\n".join(line[n:] if line[:n] == indent else line for line in lines)
    return pattern


_JINJA = re.compile(r"(\{\{.*?\}\}|\{%.*?%\}|\{#.*?#\})", re.S)


def split_template(text: str) -> List[Tuple[str, str]]:
    """[('text', ...), ('expr', 'name'), ('stmt', 'for x in y')]"""
    out = []
    for part in _JINJA.split(text):
        if not part:
            continue
        if part.startswith("{{"):
            out.append(("expr", part[2:-2].strip().strip("-").strip()))
        elif part.startswith("{%"):
            out.append(("stmt", part[2:-2].strip().strip("-").strip()))
        elif part.startswith("{#"):
            continue
        else:
            out.append(("text", part))
    return out


def template_code_text(text: str, hole: str = "HOLE_") -> str:
    """The emitted-code skeleton of a template: text parts kept, {{ expr }} replaced by an identifier."""
    out = ""
    for kind, val in split_template(text):
        if kind == "text":
            out += val
        elif kind == "expr":
            out += hole
    return out


def fragment_identifiers(code: str) -> List[Tuple[str, bool]]:
    """Free identifiers of an emitted code fragment as (dotted name, is_call) - attribute chains are joined."""
    toks = []
    try:
        for t in tokenize.generate_tokens(io.StringIO(code).readline):
            toks.append(t)
    except (tokenize.TokenError, IndentationError, SyntaxError):
        pass
    out: List[Tuple[str, bool]] = []
    i = 0
    while i < len(toks):
        t = toks[i]
        if t.type == tokenize.NAME and not keyword.iskeyword(t.string):
            prev = toks[i - 1] if i > 0 else None
            if prev is not None and prev.type == tokenize.OP and prev.string == ".":
                i += 1
                continue
            name = t.string
            j = i + 1
            while j + 1 < len(toks) and toks[j].type == tokenize.OP and toks[j].string == "." and \
                    toks[j + 1].type == tokenize.NAME:
                name += "." + toks[j + 1].string
                j += 2
            is_call = j < len(toks) and toks[j].type == tokenize.OP and toks[j].string == "("
            is_kw = j < len(toks) and toks[j].type == tokenize.OP and toks[j].string == "=" and \
                prev is not None and prev.type == tokenize.OP and prev.string in ("(", ",")
            if not is_kw:
                out.append((name, is_call))
            i = j
            continue
        i += 1
    return out


def string_context_at_hole(text_before: str) -> str:
    """Lexical context at the end of ``text_before`` in Python source: 'code', or a quote state such as
    '"', "'", '\"\"\"', "'''", prefixed with 'r' for raw literals."""
    i = 0
    n = len(text_before)
    state = "code"
    raw = False
    while i < n:
        ch = text_before[i]
        if state == "code":
            if ch == "#":
                j = text_before.find("\n", i)
                if j < 0:
                    return "comment"
                i = j + 1
                continue
            if ch in "\"'":
                # prefix letters
                k = i - 1
                prefix = ""
                while k >= 0 and text_before[k].isalpha() and len(prefix) < 3:
                    prefix = text_before[k] + prefix
                    k -= 1
                raw = "r" in prefix.lower() and all(c in "rRbBuUfF" for c in prefix)
                if text_before.startswith(ch * 3, i):
                    state = ch * 3
                    i += 3
                else:
                    state = ch
                    i += 1
                continue
            i += 1
            continue
        # inside a string
        if ch == "\\" and not raw:
            i += 2
            continue
        if ch == "\\" and raw:
            i += 2  # a backslash still escapes the quote lexically in raw strings
            continue
        if text_before.startswith(state, i):
            i += len(state)
            state = "code"
            continue
        if len(state) == 1 and ch == "\n":
            state = "code"
        i += 1
    if state == "code":
        return "code"
    return ("r" if raw else "") + state


def regex_hole_is_grouped(pattern_with_hole: str, hole: str = HOLE) -> Tuple[bool, str]:
    """Does every anchor around the hole bind the whole hole, whatever the hole contains?

    The hole is replaced by an alternation of two multi-character sentinels; if the parse tree has a top-level
    BRANCH (or the branch is a sibling of the anchors rather than inside a group), an alternation in the user
    pattern escapes the anchors.
    """
    import re._parser as sre_parse  # type: ignore
    a, b = "\ue000\ue001", "\ue002\ue003"
    pat = pattern_with_hole.replace(hole, f"{a}|{b}")
    try:
        tree = sre_parse.parse(pat)
    except re.error as e:
        return False, f"pattern does not parse: {e}"
    items = list(tree)

    def has_sentinel(x) -> bool:
        return "57344" in str(x) and "57346" in str(x)

    # (non-capturing groups are flattened by the parser: ^(?:X|Y)$ -> [AT, BRANCH, AT]; ^X|Y$ -> [BRANCH([AT X], [Y AT])])
    has_begin = bool(items) and str(items[0][0]) == "AT" and "BEGINNING" in str(items[0][1])
    has_end = bool(items) and str(items[-1][0]) == "AT" and "END" in str(items[-1][1])
    if has_begin and has_end and "END_STRING" not in str(items[-1][1]):
        return False, ("the end anchor is `$`, which also matches just before a trailing newline: a key such as "
                       "'id_1\\n' passes a pattern that should reject it (use \\Z or fullmatch)")
    if not (has_begin and has_end):
        if len(items) == 1 and str(items[0][0]) == "BRANCH":
            return False, "the user pattern sits at top level: an alternation splits the anchored sequence (^a|b$)"
        return False, f"an anchor is missing at top level (begin={has_begin}, end={has_end}): keys are matched only partially"
    middle = items[1:-1]
    if not any(has_sentinel(it) for it in middle):
        return False, "the user pattern is not between the anchors"
    return True, "hole is inside a group between ^ and $"
