"""E5 - effect summaries: which state a function writes (self / parameter / global / class attribute / closure)."""
from __future__ import annotations

import ast
from dataclasses import dataclass
from typing import Dict, List, Optional, Set, Tuple

from .callgraph import CallGraph
from .model import ClassInfo, ConstRef, External, FuncInfo, Module, Program, attr_chain, norm, walk_no_nested

MUTATORS = {"append", "add", "update", "remove", "discard", "pop", "clear", "extend", "insert", "setdefault",
            "sort", "reverse", "popitem", "appendleft", "__setitem__", "__delitem__", "move_to_end",
            "difference_update", "intersection_update", "symmetric_difference_update"}


@dataclass
class Write:
    func: FuncInfo
    node: ast.AST
    kind: str  # attr | item | mutcall | del | setattr | selfmut-call | parammut-call
    root: str  # self | param:<n> | local | global:<mod>.<name> | classattr:<Class>.<name> | closure:<n> | tls | unknown
    path: str  # normalised access path text
    via: str = ""

    @property
    def line(self):
        return getattr(self.node, "lineno", 0)


_LN_CACHE: Dict[int, Set[str]] = {}


def local_names(fn_node: ast.AST) -> Set[str]:
    r = _LN_CACHE.get(id(fn_node))
    if r is None:
        r = _local_names(fn_node)
        _LN_CACHE[id(fn_node)] = r
    return r


def _local_names(fn_node: ast.AST) -> Set[str]:
    names: Set[str] = set()
    a = fn_node.args
    for p in a.posonlyargs + a.args + a.kwonlyargs:
        names.add(p.arg)
    if a.vararg:
        names.add(a.vararg.arg)
    if a.kwarg:
        names.add(a.kwarg.arg)
    declared_global: Set[str] = set()
    if True:
        for n in walk_no_nested(fn_node):
            if n is fn_node:
                continue
            if isinstance(n, ast.Name) and isinstance(n.ctx, (ast.Store, ast.Del)):
                names.add(n.id)
            elif isinstance(n, (ast.FunctionDef, ast.ClassDef)):
                names.add(n.name)
            elif isinstance(n, (ast.Global, ast.Nonlocal)):
                declared_global.update(n.names)
            elif isinstance(n, (ast.Import, ast.ImportFrom)):
                for al in n.names:
                    names.add((al.asname or al.name).split(".")[0])
            elif isinstance(n, ast.ExceptHandler) and n.name:
                names.add(n.name)
    return names - declared_global


def param_names(fn_node) -> List[str]:
    a = fn_node.args
    out = [p.arg for p in a.posonlyargs + a.args + a.kwonlyargs]
    if a.vararg:
        out.append(a.vararg.arg)
    if a.kwarg:
        out.append(a.kwarg.arg)
    return out


class Effects:
    def __init__(self, prog: Program, cg: CallGraph):
        self.prog = prog
        self.cg = cg
        self._direct: Dict[str, List[Write]] = {}
        self._selfmut: Optional[Dict[str, bool]] = None
        self._parammut: Optional[Dict[str, Set[str]]] = None
        self.tls_objects = self._find_tls()

    # -- thread-local objects: (class qualname or module, attr) assigned threading.local() ------------------
    def _find_tls(self) -> Set[str]:
        out = set()
        tls_classes = {c.name for c in self.prog.all_classes()
                       if any("threading.local" in b or b == "local" for b in self.prog.external_bases(c))}
        for m in self.prog.pkg_modules():
            for n in ast.walk(m.tree):
                if isinstance(n, (ast.Assign, ast.AnnAssign)) and isinstance(n.value, ast.Call):
                    fn = norm(n.value.func)
                    if fn in ("threading.local", "local") or fn.split(".")[-1] in tls_classes:
                        tg = n.targets if isinstance(n, ast.Assign) else [n.target]
                        for t in tg:
                            if isinstance(t, ast.Name):
                                out.add(t.id)
                            elif isinstance(t, ast.Attribute):
                                out.add(t.attr)
        return out

    # -- root classification ------------------------------------------------------------------------------
    def root_of(self, fi: FuncInfo, expr: ast.AST, depth: int = 0) -> Tuple[str, str]:
        """(root kind, access path) for the object that ``expr`` denotes / is part of."""
        base = expr
        while isinstance(base, (ast.Attribute, ast.Subscript)):
            if isinstance(base, ast.Attribute) and base.attr in self.tls_objects:
                return "tls", norm(expr)
            base = base.value
        path = norm(expr)
        if isinstance(base, ast.Call):
            return "temp", path
        if not isinstance(base, ast.Name):
            return "unknown", path
        name = base.id
        if name in self.tls_objects and name not in local_names(fi.node) and \
                isinstance(self.prog.resolve_global(fi.module, name), ConstRef):
            return "tls", path
        # walk out through enclosing functions
        f: Optional[FuncInfo] = fi
        hops = 0
        while f is not None:
            locs = local_names(f.node)
            if name in locs:
                params = param_names(f.node)
                if name in params:
                    if name in ("self",) and params and params[0] == name:
                        shared = self._shared_class_object(f, expr)
                        if shared:
                            return shared, path
                        return "self", path
                    if name == "cls" and params and params[0] == "cls" and f.is_classmethod:
                        return f"classattr:{self._owner(f).qualname if self._owner(f) else '?'}", path
                    return f"param:{name}", path
                if hops > 0:
                    return f"closure:{name}", path
                # local: follow aliases one level (x = self.foo; x.append -> self)
                if depth < 3:
                    roots = set()
                    for n in walk_no_nested(f.node):
                        if isinstance(n, ast.Assign) and any(isinstance(t, ast.Name) and t.id == name for t in n.targets):
                            v = n.value
                            if isinstance(v, (ast.Name, ast.Attribute, ast.Subscript)):
                                roots.add(self.root_of(f, v, depth + 1)[0])
                            else:
                                roots.add("local")
                        elif isinstance(n, (ast.For, ast.comprehension)) and any(
                                isinstance(x, ast.Name) and x.id == name for x in ast.walk(n.target)):
                            r = self.root_of(f, n.iter, depth + 1)[0] if isinstance(
                                n.iter, (ast.Name, ast.Attribute, ast.Subscript)) else "local"
                            roots.add("elem-of:" + r if r != "local" else "local")
                    roots.discard("local")
                    if len(roots) == 1:
                        return roots.pop(), path
                    if roots:
                        return "alias:" + "|".join(sorted(roots)), path
                return "local", path
            f = f.parent
            hops += 1
        # class body names (class-level attribute referenced from a method by bare name is not visible in Python)
        r = self.prog.resolve_global(fi.module, name)
        if isinstance(r, ConstRef):
            return f"global:{r.module.modname}.{r.name}", path
        if isinstance(r, ClassInfo):
            return f"classattr:{r.qualname}", path
        if isinstance(r, Module):
            return f"global:{r.modname}", path
        if isinstance(r, External):
            return f"external:{r.dotted}", path
        return "unknown", path

    def _shared_class_object(self, fi: FuncInfo, expr: ast.AST) -> Optional[str]:
        """`self.a.b...` where `a` is bound once in the class body to a freshly built object and never on instances:
        all instances (and all threads) share that object, so writing into it is a write to class-level state."""
        chain = []
        e = expr
        while isinstance(e, (ast.Attribute, ast.Subscript)):
            chain.append(e)
            e = e.value
        # callers pass the object that is written into; chain[-1] is `self.a`
        if len(chain) < 1 or not isinstance(chain[-1], ast.Attribute):
            return None
        a = chain[-1].attr
        owner = self._owner(fi)
        if owner is None:
            return None
        for k in self.prog.mro(owner):
            v = k.assigns.get(a)
            if v is None:
                continue
            if not isinstance(v, (ast.Call, ast.Dict, ast.List, ast.Set)):
                return None
            # rebound per instance anywhere?
            for kk in self.prog.subclasses(k):
                for ms in kk.methods.values():
                    for m in ms:
                        for n in walk_no_nested(m.node):
                            if isinstance(n, (ast.Assign, ast.AnnAssign, ast.AugAssign)):
                                tg = n.targets if isinstance(n, ast.Assign) else [n.target]
                                if any(norm(t) == f"self.{a}" for t in tg):
                                    return None
            return f"classattr:{k.qualname}.{a}"
        return None

    @staticmethod
    def _owner(fi: FuncInfo) -> Optional[ClassInfo]:
        f = fi
        while f is not None:
            if f.cls is not None:
                return f.cls
            f = f.parent
        return None

    # -- direct writes of one function -----------------------------------------------------------------------
    def direct_writes(self, fi: FuncInfo) -> List[Write]:
        if fi.key in self._direct:
            return self._direct[fi.key]
        out: List[Write] = []
        for n in walk_no_nested(fi.node):
            targets: List[ast.AST] = []
            if isinstance(n, ast.Assign):
                targets = list(n.targets)
            elif isinstance(n, (ast.AugAssign, ast.AnnAssign)):
                if not (isinstance(n, ast.AnnAssign) and n.value is None):
                    targets = [n.target]
            elif isinstance(n, ast.Delete):
                targets = list(n.targets)
            elif isinstance(n, (ast.For,)):
                targets = [n.target]
            flat: List[ast.AST] = []
            for t in targets:
                if isinstance(t, (ast.Tuple, ast.List)):
                    flat.extend(t.elts)
                else:
                    flat.append(t)
            for t in flat:
                if isinstance(t, ast.Starred):
                    t = t.value
                if isinstance(t, ast.Attribute):
                    root, path = self.root_of(fi, t.value)
                    if isinstance(t.value, ast.Name) and t.value.id in ("self",) and root == "self":
                        out.append(Write(fi, n, "attr", "self", norm(t)))
                    else:
                        out.append(Write(fi, n, "attr", root, norm(t)))
                elif isinstance(t, ast.Subscript):
                    root, path = self.root_of(fi, t.value)
                    out.append(Write(fi, n, "item", root, norm(t)))
                elif isinstance(t, ast.Name) and isinstance(n, (ast.Assign, ast.AugAssign, ast.AnnAssign)):
                    # rebinding a global / nonlocal name
                    if t.id not in local_names(fi.node):
                        f2 = fi.parent
                        is_closure = False
                        while f2 is not None:
                            if t.id in local_names(f2.node):
                                is_closure = True
                                break
                            f2 = f2.parent
                        out.append(Write(fi, n, "rebind", f"closure:{t.id}" if is_closure else
                                         f"global:{fi.module.modname}.{t.id}", t.id))
            if isinstance(n, ast.Call):
                fn = n.func
                if isinstance(fn, ast.Attribute) and fn.attr in MUTATORS:
                    root, path = self.root_of(fi, fn.value)
                    out.append(Write(fi, n, "mutcall", root, norm(fn)))
                elif isinstance(fn, ast.Name) and fn.id in ("setattr", "delattr") and n.args:
                    root, path = self.root_of(fi, n.args[0])
                    out.append(Write(fi, n, "setattr", root, norm(n)))
        self._direct[fi.key] = out
        return out

    # -- transitive: does calling this method mutate its receiver? which params does a function mutate? -----
    def _summaries(self):
        if self._selfmut is not None:
            return
        funcs = list(self.prog.all_funcs())
        selfmut: Dict[str, bool] = {f.key: False for f in funcs}
        parammut: Dict[str, Set[str]] = {f.key: set() for f in funcs}
        for f in funcs:
            for w in self.direct_writes(f):
                if w.root == "self":
                    selfmut[f.key] = True
                elif w.root.startswith("param:"):
                    parammut[f.key].add(w.root[6:])
                elif w.root.startswith("closure:"):
                    # closure var bound to an enclosing parameter (decorator inside a method)
                    nm = w.root[8:]
                    p = f.parent
                    while p is not None:
                        if nm in param_names(p.node):
                            if nm == "self":
                                selfmut[p.key] = True
                            else:
                                parammut[p.key].add(nm)
                            break
                        p = p.parent
        changed = True
        while changed:
            changed = False
            for f in funcs:
                for n in walk_no_nested(f.node):
                    if not isinstance(n, ast.Call):
                        continue
                    for t in self.cg.resolve_call(f, f.module, n):
                        tf = t[1] if isinstance(t, tuple) and t[0] == "byname" else t
                        if not isinstance(tf, FuncInfo):
                            continue
                        # receiver mutation propagates
                        if isinstance(n.func, ast.Attribute) and selfmut.get(tf.key):
                            root, _ = self.root_of(f, n.func.value)
                            if root == "self" and not selfmut[f.key]:
                                selfmut[f.key] = True
                                changed = True
                            elif root.startswith("param:") and root[6:] not in parammut[f.key]:
                                parammut[f.key].add(root[6:])
                                changed = True
                        # argument mutation propagates
                        pm = parammut.get(tf.key, set())
                        if pm:
                            params = param_names(tf.node)
                            off = 1 if (tf.cls is not None and not tf.is_static and isinstance(n.func, ast.Attribute)) else 0
                            for i, a in enumerate(n.args):
                                if i + off < len(params) and params[i + off] in pm and isinstance(
                                        a, (ast.Name, ast.Attribute, ast.Subscript)):
                                    root, _ = self.root_of(f, a)
                                    if root == "self" and not selfmut[f.key]:
                                        selfmut[f.key] = True
                                        changed = True
                                    elif root.startswith("param:") and root[6:] not in parammut[f.key]:
                                        parammut[f.key].add(root[6:])
                                        changed = True
        self._selfmut, self._parammut = selfmut, parammut

    def self_mutating(self, fi: FuncInfo) -> bool:
        self._summaries()
        return self._selfmut.get(fi.key, False)

    def mutated_params(self, fi: FuncInfo) -> Set[str]:
        self._summaries()
        return self._parammut.get(fi.key, set())

    # -- all write events of a function including effects of its calls on non-local roots ---------------------
    def events(self, fi: FuncInfo) -> List[Write]:
        """Direct writes plus call-site events: calling a self-mutating method on X, passing X to a
        parameter-mutating function, or relying on a mutated parameter's default that is a global."""
        self._summaries()
        out = list(self.direct_writes(fi))
        for n in walk_no_nested(fi.node):
            if not isinstance(n, ast.Call):
                continue
            for t in self.cg.resolve_call(fi, fi.module, n):
                tf = t[1] if isinstance(t, tuple) and t[0] == "byname" else t
                if not isinstance(tf, FuncInfo):
                    continue
                if isinstance(n.func, ast.Attribute) and self._selfmut.get(tf.key) and not (
                        isinstance(t, tuple) and t[0] == "byname"):
                    root, path = self.root_of(fi, n.func.value)
                    out.append(Write(fi, n, "selfmut-call", root, norm(n.func), via=tf.qualname))
                pm = self._parammut.get(tf.key, set())
                if pm:
                    params = param_names(tf.node)
                    off = 1 if (tf.cls is not None and not tf.is_static and isinstance(n.func, ast.Attribute)) else 0
                    bound = set()
                    for i, a in enumerate(n.args):
                        if i + off < len(params):
                            bound.add(params[i + off])
                            if params[i + off] in pm and isinstance(a, (ast.Name, ast.Attribute, ast.Subscript)):
                                root, path = self.root_of(fi, a)
                                out.append(Write(fi, n, "parammut-call", root, norm(a), via=tf.qualname))
                    for k in n.keywords:
                        if k.arg:
                            bound.add(k.arg)
                            if k.arg in pm and isinstance(k.value, (ast.Name, ast.Attribute, ast.Subscript)):
                                root, path = self.root_of(fi, k.value)
                                out.append(Write(fi, n, "parammut-call", root, norm(k.value), via=tf.qualname))
                    # defaults
                    a = tf.node.args
                    pos = a.posonlyargs + a.args
                    defaults = dict(zip([p.arg for p in pos[len(pos) - len(a.defaults):]], a.defaults))
                    defaults.update({p.arg: d for p, d in zip(a.kwonlyargs, a.kw_defaults) if d is not None})
                    for p in pm:
                        if p not in bound and p in defaults and isinstance(defaults[p], (ast.Name, ast.Attribute)):
                            root, path = self.root_of(tf, defaults[p])
                            # default expressions are evaluated in the defining module's scope
                            r = self.prog.resolve_class_expr(tf.module, defaults[p], None)
                            if isinstance(r, ConstRef):
                                root = f"global:{r.module.modname}.{r.name}"
                            out.append(Write(fi, n, "parammut-call", root, norm(defaults[p]),
                                             via=tf.qualname + " (default argument)"))
        return out
