"""Texts for MANIFEST.json (level_claimed / level_note / technique) per property; kept next to the rules."""

LEVEL = {}
NOT_APPLICABLE = {}


def level(pid, text, note, technique, design_ref):
    LEVEL[pid] = {"text": text, "note": note, "technique": technique, "design_ref": design_ref}


level("C14",
      "Static decision, for all inputs and call sequences, of structural necessary conditions of C14: the reference "
      "context is saved and restored on every exit and entered only via `with`; no function reachable from a library "
      "entry point writes module-level, class-level, escaping-closure or default-argument state; memoisation is per "
      "instance with keys that separate the functions sharing a store. It is not exploration and not a proof of the "
      "behavioural property.",
      "Decided: CTX-1..3, GLOB-1, CACHE-1/2 over the whole package (CHA + by-name call graph, effect summaries). "
      "NOT decided: that rendering the same registry twice gives the same text (depends on label conversion being "
      "idempotent, a string function), and equality of outputs across call sequences. Trusted: analyser's model of "
      "Python scoping/effects; mutator-method table; third-party objects are not analysed.",
      "effect analysis (who-may-write) over a CHA call graph + CFG post-dominance of the context restore",
      "DESIGN.md §4 C14")
level("C15",
      "Static decision, for every thread schedule, of: each read of a threading.local attribute is safe in a thread "
      "that never wrote it (defined by a threading.local subclass, or dominated by a write in the same function), and "
      "concurrent pipelines share no written state (GLOB-1, CACHE-1).",
      "Decided: TLS-1, GLOB-1, CACHE-1. NOT decided: atomicity inside third-party objects (shared jinja2.Template "
      "instances assumed re-entrant); no schedule is executed. Trusted: recognition of threading.local objects by "
      "constructor/subclass; effect summaries.",
      "typestate of thread-local attributes (dominating write / class-level default) + effect analysis",
      "DESIGN.md §4 C15")

level("C17",
      "Static decision, for every fault kind and position at once, of: each write-capable file access reachable from "
      "main is a `with` block that only writes values completed before the open, with nothing that can fail reachable "
      "after it (in its function or, after return, in callers up to main); sample iterators are consumed during "
      "argument processing; no exception handler on a CLI path continues normally around a pipeline stage; no "
      "zero-status exit in handlers; only constants and run()'s final value are printed; each input loader opens its "
      "path itself.",
      "Decided: ATOM-1/2, EXC-1, EXIT-1, OUT-1, LOAD-1 on the CFGs of the CLI cone. NOT decided: what the OS does if "
      "the final write itself fails; which exception type each fault raises. Trusted: CFG construction with "
      "exceptional edges, the table of file-mutating APIs, the list of pipeline-stage anchors.",
      "CFG dominance / reachability (opened-last), who-may-write inventory of file APIs, handler classification",
      "DESIGN.md §4 C17")
level("C05",
      "Static decision of structural necessary conditions of C05 for all model graphs: unregistering a model is always "
      "paired, in the same iteration and unconditionally, with snapshot loops retargeting every pointer and child "
      "reference to the single registered replacement built from the same models' field sets; pointer retargeting "
      "detaches before and attaches after; loops never iterate a live collection their body resizes; every merge is "
      "reported; similarity is any() over all comparators on both key sets for every pair; thresholds are inclusive.",
      "Decided: REG-1/2, REG-3, REG-4, CMP-1, CMP-2. NOT decided: the iff between merged classes and similarity chains "
      "(closure over run-time groups), 'untouched models unchanged'. Trusted: effect summaries (size-mutation by "
      "attribute name), comparison normaliser.",
      "pairing/ordering rules on AST+CFG, transitive size-mutation summaries, comparison normalisation against the README oracle",
      "DESIGN.md §4 C05")
level("C06",
      "Static decision for every input and hash seed: every site where an unordered collection is iterated, unpacked, "
      "joined or sequenced is enumerated and must be consumed order-neutrally (sorted/set/any/len/min/membership, a "
      "commutative loop body, a singleton guard, or parameters/returns whose every use is neutral, followed "
      "interprocedurally); nondeterministic primitives only at listed sites.",
      "Decided: ORD-1, NDET-1 (up to assumptions: sorted() keys are total, dict/OrderedSet keep insertion order, "
      "third-party calls deterministic). Five reasoned allow-list entries, each one construct wide, are arguments "
      "read by a human, not proofs. Trusted: set-typing by constructors/annotations/attribute cells with reaching "
      "definitions.",
      "flow-sensitive typing of unordered collections + exposure/consumer dataflow over the call graph",
      "DESIGN.md §4 C06")
level("C09",
      "Static decision of the protocol clauses of C09: detection returns a type only after that type's own parser "
      "accepted the unmodified string; registration order is preserved; removal purges list and replace relation; "
      "resolve() returns a subset of its arguments; disabled names are applied before loading and no registration can "
      "follow a removal on CLI paths; every pseudo-type implements the interface and raises what the detector catches.",
      "Decided: DET-1..5. NOT decided (runtime semantics of int/float/dateutil): parser language inclusion between "
      "types in the replace relation, parse/render/parse round trips, correctness of resolve()'s cover. Trusted: CFG "
      "dominance with handler edges, call resolution.",
      "CFG dominance with exceptional edges, interface-completeness (sibling agreement), interprocedural event order",
      "DESIGN.md §4 C09")

level("C13",
      "Static decision for all option values and inputs of: the CLI compiles ^ + group(user pattern, unmodified) + $ in "
      "every variant its code can produce (regex parse tree with the user part as an opaque hole), without flags; the "
      "per-field flag reaches only the direct value; regexes are compiled one by one and the flag is cleared only under "
      "all(pattern.match over every key); flag->model / not flag->mapping; empty->mapping; samples->models.",
      "Decided: RX-1, DK-1, DK-2, DK-3. NOT decided: that the mapping's value type admits every value (C01); `$` "
      "matching before a trailing newline. Trusted: re._parser parse trees; symbolic string evaluation of the pattern "
      "expression (helpers inlined to depth 3).",
      "symbolic string provenance + regex AST with an opaque hole; call-site classification; guard shape of the decision",
      "DESIGN.md §4 C13")

level("C19",
      "Static decision for every argv and preamble text of: each run-time component of the header, located in its "
      "lexical context, is a fixed-alphabet value or passes as its last transformation a replacement of the closing "
      "quote run (with non-quote neighbours, newline after); run() emits header + module with the stored preamble "
      "unchanged; every layout generate_code can return is [imports]? [preamble]? classes with the untransformed "
      "preamble at most once, also without imports, guarded by its own truthiness only; only str.strip() between "
      "--preamble and the stored value.",
      "Decided: INJ-4, SHAPE-1..3. NOT decided: validity of the module for each concrete argv is argued from the "
      "sanitiser reasoning, not by parsing outputs; undecodable argv bytes. Trusted: symbolic string evaluation "
      "(reaching definitions, helper inlining), the lexical-context scanner, the sanitiser adequacy argument.",
      "symbolic string provenance with lexical-context classification of holes (taint with sanitiser adequacy) + layout of string atoms",
      "DESIGN.md §4 C19")

level("C16",
      "Static decision for all option sets of: every option is defined, consumed and delivered (forward taint through "
      "the Cli object's methods, attribute cells, dict keys and called callables) to its documented library parameter "
      "without depending on other options; choices have handlers; converters attached to generator keywords are "
      "total on the static types that reach them; run() executes the pipeline stages once each in order and writes "
      "the very local it returns, with an explicit encoding; samples are accumulated in argument order with no skip.",
      "Decided: OPTFLOW-1..5, SAME-1, STAGE-1, SEQ-1, ENC-1. The option->parameter table is the oracle (from the CLI "
      "help/README). NOT decided: dict_lookup / iter_json_file semantics on data, textual equality of CLI and library "
      "output on concrete inputs, order between -m and the deprecated -l. Trusted: taint propagation rules, argparse "
      "destination derivation.",
      "forward taint with reaching definitions and control-dependence checks; table agreement; CFG dominance for stage order",
      "DESIGN.md §4 C16")

level("C18",
      "Static decision of: the path tokens, separators and type-argument indexes the generator writes are the ones the "
      "post-init interpreter reads; the path writer has an arm of the right kind for every IR class that rapid type "
      "analysis shows inference can produce (containers contribute tokens, Unknown/Null/literals are skipped, unions "
      "and model references give up as documented); decorator entries use the field-name conversion; under the "
      "Optional token None is returned before any container branch can iterate it; the converter runtime keeps no "
      "shared state.",
      "Decided: TOK-1, TOK-2, TOK-3, NULL-1, GLOB-1. NOT decided: that converted values equal parsing the original "
      "strings; the per-field attrs converter form. Trusted: recognition of the `cls is X` dispatch chain and the "
      "`token == 'X'` chain.",
      "writer/reader table agreement, exhaustiveness by rapid type analysis, guard dominance for nullable values",
      "DESIGN.md §4 C18")

level("C10",
      "Static decision for all string sets and limits of: each limit comparison flips exactly at the documented boundary "
      "and measures one collection; the unlimited case is an identity test; Literal members pass an escaper that is "
      "exact for every str in code context; Literal appears only when the style enables it; attrs disables it; the "
      "configured maximum is stored per generator instance.",
      "Decided: LIM-1..3, INJ-3, LIT-1/2, GLOB-1. NOT decided: 'annotated whenever nothing had to be generalised', that "
      "the listed strings are exactly the observed ones (run-time values). Trusted: the escaper table (validated "
      "against the interpreter in the thorough tier), constant folding of the limits.",
      "comparison normalisation evaluated at boundary points; escaper classification over symbolic string provenance; path enumeration",
      "DESIGN.md §4 C10")
level("C11",
      "Static decision for every key text of: the original key is only compared, converted to a label, stored in a "
      "container display or escaped exactly in code context; it is attached and rendered on every feasible path where "
      "the name differs; labels are sanitised in the required order with an exact black-list test last; all importable "
      "names are black-listed; taken model names are always renamed; the label cache separates the two conversions.",
      "Decided: INJ-2, SIB-2, LABEL-1, SHADOW-1, DUP-1, CACHE-2. NOT decided: distinct keys give distinct names "
      "(string functions of unidecode/inflection on concrete input); class-name de-duplication precedes sanitising. "
      "Trusted: escaper table, regex AST of the sanitiser, path feasibility simulation of the kwargs dict.",
      "taint-with-sanitiser classification of every use of the key; label typestate ordering; path enumeration with abstract dict state",
      "DESIGN.md §4 C11")
level("C03",
      "Static decision for all inputs of: every emitted import resolves against installed sources; every identifier in "
      "emitted fragments is imported by the same generator or builtin; importable names are black-listed; labels are "
      "sanitised in order; taken names renamed; model references are quoted; keys/literal members cannot break the "
      "source; defaults exactly on optional fields.",
      "Decided: IMP-1, IMP-2/3, SHADOW-1, LABEL-1, DUP-1, FWD-1, INJ-2/3, SIB-1. NOT decided: that the whole module "
      "compiles and every annotation evaluates per input; uniqueness of sanitised names; one class per model is "
      "covered under C12's rules. sqlmodel is not installed: its two imports are counted as unverifiable. Trusted: "
      "ast of site-packages sources for name binding, template tokenisation.",
      "writer/reader agreement between emitted imports and free identifiers of emitted fragments (folded Jinja templates), resolved against installed sources",
      "DESIGN.md §4 C03")
level("C04",
      "Static decision for all model graphs of: the three framework generators agree with the canonical default table on "
      "every feasible path (default iff optional; list/dict factories; None otherwise) and the flag comes from the "
      "DOptional test; the original key is attached, rendered and exactly escaped when the name differs; IR wrappers "
      "render as their typing counterparts; labels come from the right conversion; style tables are per instance.",
      "Decided: SIB-1, SIB-2, INJ-2, TBL-1, CACHE-2, GLOB-1. NOT decided: per-program equality between the evaluated "
      "annotation and the IR type, whitespace/indentation of templates. Trusted: path enumeration and the abstract "
      "kwargs-dict state used to discard infeasible paths.",
      "sibling cross-check by path enumeration of each field_data implementation against a canonical table",
      "DESIGN.md §4 C04")

level("C12",
      "Static decision for all model graphs of: each model's structure entry exists before placement starts, is never "
      "replaced, and is inserted into exactly one list on every non-raising path of both layout loops; one generator and "
      "one class text per entry with nested class texts forwarded by every framework and emitted by the template; "
      "nesting only from single-parent / single-root paths; the flat layout never nests.",
      "Decided: LAY-1, LAY-2, LAY-3. NOT decided: class-by-class equality of the two layouts, 'root first', "
      "reachability of every placed entry from the root list for non-tree graphs. Trusted: path enumeration of the "
      "loop bodies (try/except modelled as alternative paths), recognition of list placement calls.",
      "exactly-once counting over enumerated paths of the placement loops; forwarding agreement of generate() overrides",
      "DESIGN.md §4 C12")

level("C01",
      "Static decision for all sample lists of the optionality and completeness clauses: monotone optionality through "
      "every feasible path of the field-set merge, wrapping of missing names, hoisting of Optional union members, "
      "fields dropped only by the all-null filter, one field per key, no class shadowed by a same-named one.",
      "Decided: OPT-1, OPT-2, OPT-3, DROP-1, DUP-1. NOT decided: that every value inhabits the annotation chosen for "
      "it (value-level: type detection, simplification, pseudo-type resolution). Trusted: path enumeration of "
      "merge_field_sets with the symbolic optionality evaluator; equality axioms checked by EQ-1/NF-3.",
      "path-sensitive abstract evaluation (optionality kinds) of the merge loop; must-follow structure of the missing-field loop",
      "DESIGN.md §4 C01")
level("C02",
      "Static decision of where widening can be introduced: Optional only when justified by the merge table, Null only "
      "for None, Unknown only for empty containers, candidate removals and str only as documented, no cross-call state "
      "in type construction.",
      "Decided: OPT-4, NULLDET-1, WIDEN-1, GLOB-1 (type construction). NOT decided: per-position tightness against the "
      "sample multiset. Trusted: guard recognition by enclosing conditions.",
      "who-may-introduce / who-may-remove classification of widening sites with guard conditions; effect analysis",
      "DESIGN.md §4 C02")
level("C07",
      "Static decision of the order-insensitivity clauses visible in code: symmetric optionality and equality-only keeps "
      "in the merge table, type-exact order-insensitive equality with cache invalidation, limit comparisons that count "
      "one distinct set.",
      "Decided: OPT-5, EQ-1, LIM-1..3. NOT decided: invariance of inferred types under permutation (follows values). "
      "Trusted: as C01 and C10.",
      "symmetry check on the abstract merge table; structural checks of __eq__/sorted/caches",
      "DESIGN.md §4 C07")
level("C08",
      "Static decision of the structural normal-form clauses: singleton collapse tested on the constructed union, no "
      "empty union, no nested Optional, double simplification pass in merge_models, cache invalidation, removal of "
      "Unknown/Null from the final candidate list.",
      "Decided: NF-1/2/3, NF-6, EQ-1, WIDEN-1 (NF-5), OPT-3. NOT decided: int/float and str absorption on concrete "
      "types, idempotence on arbitrary types. Trusted: recognition of the collapse idiom directly after the construction.",
      "construction-site typestate (every union construction followed by its collapse test), must-call ordering",
      "DESIGN.md §4 C08")
