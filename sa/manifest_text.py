"""Texts for MANIFEST.json (level_claimed / level_note / technique) per property; kept next to the rules."""

LEVEL = {}
NOT_APPLICABLE = {}


def level(pid, text, note, technique, design_ref):
    LEVEL[pid] = {"text": text, "note": note, "technique": technique, "design_ref": design_ref}


level("C14",
      "Static decision, for all inputs and call sequences, of structural necessary conditions of C14: the reference "
      "context is saved and restored on every exit and entered only via `with`; no function reachable from a library "
      "entry point writes module-level, class-level, escaping-closure or default-argument state; memoisation is per "
      "instance with keys that separate the functions sharing a store. It is not exploration and not a proof of the "
      "behavioural property.",
      "Decided: CTX-1..3, GLOB-1, CACHE-1/2 over the whole package (CHA + by-name call graph, effect summaries). "
      "NOT decided: that rendering the same registry twice gives the same text (depends on label conversion being "
      "idempotent, a string function), and equality of outputs across call sequences. Trusted: analyser's model of "
      "Python scoping/effects; mutator-method table; third-party objects are not analysed.",
      "effect analysis (who-may-write) over a CHA call graph + CFG post-dominance of the context restore",
      "DESIGN.md §4 C14")
level("C15",
      "Static decision, for every thread schedule, of: each read of a threading.local attribute is safe in a thread "
      "that never wrote it (defined by a threading.local subclass, or dominated by a write in the same function), and "
      "concurrent pipelines share no written state (GLOB-1, CACHE-1).",
      "Decided: TLS-1, GLOB-1, CACHE-1. NOT decided: atomicity inside third-party objects (shared jinja2.Template "
      "instances assumed re-entrant); no schedule is executed. Trusted: recognition of threading.local objects by "
      "constructor/subclass; effect summaries.",
      "typestate of thread-local attributes (dominating write / class-level default) + effect analysis",
      "DESIGN.md §4 C15")
