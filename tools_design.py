#!/venv/bin/python
"""Developer tool: regenerate the generated tables of DESIGN.md section 10 (between <!-- GEN:x --> markers) from the
evidence files, known_findings.json, seeded/*/meta.json and a battery run (selftest/run.py --json if available)."""
import glob
import json
import os
import re
import subprocess
import sys

V = os.path.dirname(os.path.abspath(__file__))


def rules_table():
    rows = ["| id | rules run by the check |", "|----|------------------------|"]
    for f in sorted(glob.glob(os.path.join(V, "evidence", "C*.json"))):
        e = json.load(open(f))
        pid = os.path.basename(f)[:-5]
        rules = set()

        def walk(x):
            if isinstance(x, dict):
                if "rule" in x and isinstance(x["rule"], str) and len(x["rule"]) < 20 and " " not in x["rule"]:
                    rules.add(x["rule"])
                for v in x.values():
                    walk(v)
            elif isinstance(x, list):
                for v in x:
                    walk(v)
        walk(e)
        rows.append(f"| {pid} | {', '.join(sorted(rules))} |")
    return "\n".join(rows)


def defects_table():
    k = json.load(open(os.path.join(V, "known_findings.json")))
    rows = ["| commit | rule / property | what failed |", "|--------|-----------------|-------------|"]
    for e in k:
        rows.append(f"| {e.get('commit') or 'not repaired'} | {e['rule']} / {e['property']} | {e['fails'][:330].replace('|', '/')} |")
    return "\n".join(rows), (sum(1 for e in k if e.get("status") == "fixed"), sum(1 for e in k if e.get("status") == "known"))


def seeded_table():
    sys.path.insert(0, V)
    from selftest.run import battery
    js = next((a for a in sys.argv[1:] if a.endswith(".json")), None)      # the result of `selftest/run.py --json <file>`, if given
    res = json.load(open(js)) if js else battery(only=None, jobs=16)
    rows = ["| seeded change | what was changed | reported by |", "|---------------|------------------|-------------|"]

    def key(s):
        m = re.match(r"(C\d+)-(?:r(\d)-)?(\d+)", s)
        return (m.group(1), int(m.group(2) or 1), int(m.group(3)))
    for sid in sorted(res["seeded"], key=key):
        r = res["seeded"][sid]
        meta = json.load(open(os.path.join(V, "seeded", sid, "meta.json")))
        rules = ", ".join(sorted({x for x in r["rules"] if re.match(r"^[A-Z]+[A-Z0-9-]*[0-9a-z/.]*$", x.split(" ")[0])})) or "—"
        if r.get("withheld"):
            rules = "— (verdict withheld, exit 2: the change restructures the code the rule looks at; §10.7)"
        elif not r["detected"]:
            rules = "— (out of reach)"
        tgt = meta.get("property", sid.split("-")[0])
        note = f" (reported under {tgt})" if tgt != sid.split("-")[0] else ""
        rows.append(f"| {sid} | {meta.get('summary', '')[:120].replace('|', '/')} | {rules}{note} |")
    return "\n".join(rows), res["counts"], res["failed"]


def main():
    p = os.path.join(V, "DESIGN.md")
    s = open(p).read()
    dt, n = defects_table()
    st, counts, failed = seeded_table()
    parts = {"rules": rules_table(), "defects": dt, "seeded": st,
             "counts": f"battery on this tree: {counts['seeded_detected']} of {counts['seeded']} seeded changes reported by the "
                       f"check of their property ({counts.get('seeded_withheld', 0)} more end in a withheld verdict, exit 2), "
                       f"{counts['twins_silent']} of {counts['twins']} twins silent, {counts.get('micro_silent', 0)} of {counts.get('micro', 0)} "
                       f"micro-edits silent ({counts.get('micro_false_alarm', 0)} false alarms listed in selftest/run.py), "
                       f"{counts.get('refactorings_no_alarm', 0)} of {counts.get('refactorings', 0)} refactorings without a VIOLATION; "
                       f"{n[0]} repaired defects and {n[1]} known finding(s) recorded; expectations {'all met' if not failed else 'NOT met: ' + str(failed)}"}
    for k, v in parts.items():
        a, b = f"<!-- GEN:{k} -->", f"<!-- /GEN:{k} -->"
        if a not in s or b not in s:
            print("marker missing:", k)
            continue
        s = s[:s.index(a) + len(a)] + "\n" + v + "\n" + s[s.index(b):]
    open(p, "w").write(s)
    print(parts["counts"])


if __name__ == "__main__":
    main()
