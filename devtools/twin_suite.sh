#!/bin/bash
# usage: twin_suite.sh name...
for n in "$@"; do
  D=$(mktemp -d /tmp/tws_XXXX); rmdir $D
  git -C /repo worktree add -q --detach $D HEAD
  (cd $D && git apply /verif/selftest/twins/$n.diff && PYTHONPATH=$D PYTHONDONTWRITEBYTECODE=1 /venv/bin/python -m pytest -q -p no:cacheprovider -n 4 test 2>&1 | tail -1 | sed "s/^/$n: /")
  git -C /repo worktree remove --force $D
done
