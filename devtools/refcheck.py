#!/venv/bin/python
"""Developer tool: verify behaviour-preserving refactorings delivered by sub-agents (REF/<k>/patch.diff, equiv.py) and run every
registered check against each of them.

    refcheck.py /tmp/ref8 [C01 C02 ...]

For each refactoring: the suite must pass with it, equiv.py must print the same digest with and without it; then all 19 checks
run on a scratch copy with the patch applied.  Prints one line per refactoring: verified?, properties whose check exits 1 / 2.
"""
import json
import os
import subprocess
import sys
import tempfile
from concurrent.futures import ThreadPoolExecutor

sys.path.insert(0, os.path.dirname(os.path.dirname(os.path.abspath(__file__))))
from tools_mut import run as run_checks  # noqa: E402

PY = "/venv/bin/python"


def sh(cmd, cwd, env=None, timeout=1800):
    e = dict(os.environ)
    e.update(env or {})
    try:
        r = subprocess.run(cmd, cwd=cwd, env=e, capture_output=True, text=True, timeout=timeout)
        return r.returncode, r.stdout + r.stderr
    except subprocess.TimeoutExpired:
        return 124, "timeout"


CHECKS_ONLY = "--checks-only" in sys.argv


def verify(base, pid, k):
    d = os.path.join(base, pid, "REF", k)
    patch = os.path.join(d, "patch.diff")
    out = {"id": f"{pid}-ref-{k}", "dir": d}
    if not os.path.isfile(patch):
        out["status"] = "no patch"
        return out
    if CHECKS_ONLY:
        out["status"] = "(not re-verified)"
    wt = tempfile.mkdtemp(prefix="refchk_", dir="/tmp")
    os.rmdir(wt)
    subprocess.check_call(["git", "-C", "/repo", "worktree", "add", "-q", "--detach", wt, "HEAD"])
    try:
        if CHECKS_ONLY:
            raise StopIteration

        env = {"PYTHONPATH": wt, "PYTHONDONTWRITEBYTECODE": "1", "PYTHONHASHSEED": "0"}
        rc, o = sh(["git", "apply", patch], wt)
        if rc:
            out["status"] = "patch does not apply: " + o[:120]
            return out
        rc, o = sh([PY, "-m", "pytest", "-q", "-p", "no:cacheprovider", "-n", "3", "--timeout=900", "test"], wt, env)
        tail = o.strip().splitlines()[-1] if o.strip() else ""
        out["suite"] = tail[-40:]
        eq = os.path.join(d, "equiv.py")
        d_mut = d_clean = None
        if os.path.isfile(eq):
            rc1, o1 = sh([PY, eq], wt, env, 900)
            sh(["git", "checkout", "-q", "--", "."], wt)
            rc2, o2 = sh([PY, eq], wt, env, 900)
            d_mut, d_clean = (rc1, o1.strip().splitlines()[-1:] or [""]), (rc2, o2.strip().splitlines()[-1:] or [""])
        out["equiv_same"] = d_mut == d_clean and d_mut is not None and d_mut[0] == 0
        out["equiv"] = (d_mut, d_clean)
        out["status"] = "verified" if "428 passed" in tail and out["equiv_same"] else "NOT VERIFIED"
    except StopIteration:
        pass
    finally:
        subprocess.call(["git", "-C", "/repo", "worktree", "remove", "--force", wt])
    res = run_checks(patch)
    if "error" in res:
        out["checks"] = res["error"]
    else:
        out["fired"] = {p: [r for r in rules if not r.startswith("ANALYSIS-ERROR")][:3] for p, (rc, rules) in res.items() if rc == 1}
        out["errors"] = {p: [r for r in rules if r.startswith("ANALYSIS-ERROR")][:2] for p, (rc, rules) in res.items() if rc == 2}
    try:
        out["meta"] = json.load(open(os.path.join(d, "meta.json")))
    except Exception:
        out["meta"] = {}
    return out


if __name__ == "__main__":
    base = sys.argv[1]
    pids = [a for a in sys.argv[2:] if not a.startswith("--")] or sorted(p for p in os.listdir(base) if os.path.isdir(os.path.join(base, p, "REF")))
    tasks = [(base, p, k) for p in pids for k in sorted(os.listdir(os.path.join(base, p, "REF"))) if os.path.isdir(os.path.join(base, p, "REF", k))]
    results = []
    with ThreadPoolExecutor(8 if CHECKS_ONLY else 5) as ex:
        for r in ex.map(lambda t: verify(*t), tasks):
            results.append(r)
            noisy = {**r.get("fired", {}), **{k: v for k, v in r.get("errors", {}).items()}}
            print(f"{r['id']:14s} {r.get('status', '?'):14s} suite={r.get('suite', '')[:24]:24s} fired={sorted(r.get('fired', {}))} "
                  f"errors={sorted(r.get('errors', {}))} :: {r.get('meta', {}).get('kind', '')[:30]} - {r.get('meta', {}).get('summary', '')[:90]}",
                  flush=True)
    json.dump(results, open(os.path.join(base, "refcheck_" + "_".join(pids)[:60] + ".json"), "w"), indent=1, default=str)
