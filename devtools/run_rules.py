import sys, importlib, traceback
import os; sys.path.insert(0, os.path.dirname(os.path.dirname(os.path.abspath(__file__))))
from sa.ctx import Ctx
root=sys.argv[1]; mod=sys.argv[2]
ctx=Ctx(root)
m=importlib.import_module('sa.rules.'+mod)
for name in sys.argv[3:]:
    try:
        rr=getattr(m,name)(ctx)
    except Exception as e:
        traceback.print_exc(); print(name,'ERROR',e); continue
    v=[o for o in rr.obligations if o.verdict=='violated']
    print(f"{rr.rule}: inst={rr.instances} floor={rr.floor} obs={len(rr.obligations)} viol={len(v)}")
    for o in v: print("   V", o.qualname, '|', o.text[:90], '|', o.how[:160])
