#!/venv/bin/python
"""Developer tool: run some rules (ungated) over the scratch roots of all stored behaviour-preserving refactorings.
    refrules.py <rule module> <rule function> [...]      env ROOTS=/tmp/refroots
Prints, per root, the violated obligations and the analysis errors: each of them is a false alarm (or a gap) to remove."""
import importlib, os, sys, traceback
from concurrent.futures import ProcessPoolExecutor
HERE = os.path.dirname(os.path.dirname(os.path.abspath(__file__)))
sys.path.insert(0, HERE)
ROOTS = os.environ.get("ROOTS", "/tmp/refroots")


def one(args):
    root, mod, names = args
    from sa.ctx import Ctx
    from sa.model import AnalysisError
    out = []
    try:
        ctx = Ctx(root)
    except Exception as e:
        return root, [f"LOAD {e!r}"]
    from sa.props import PROPS
    FN = {r.__name__: r for spec in PROPS.values() for r in spec["rules"]}
    for name in names:
        try:
            rr = FN[name](ctx)
        except AnalysisError as e:
            out.append(f"E {name}: {e}")
            continue
        except Exception as e:
            out.append(f"X {name}: {e!r} {traceback.format_exc().splitlines()[-3].strip()}")
            continue
        if rr.instances < rr.floor:
            out.append(f"E {rr.rule}: floor {rr.instances}<{rr.floor}")
        for o in rr.obligations:
            if o.verdict == "violated":
                out.append(f"V {o.rule} {o.qualname} | {o.text[:80]} | {o.how[:200]}")
    return root, out


if __name__ == "__main__":
    mod, names = sys.argv[1], sys.argv[2:]
    roots = sorted(os.path.join(ROOTS, d) for d in os.listdir(ROOTS))
    roots = ["/repo"] + roots
    bad = 0
    with ProcessPoolExecutor(8) as ex:
        for root, out in ex.map(one, [(r, mod, names) for r in roots]):
            if out:
                bad += 1
                print(os.path.basename(root))
                for ln in out:
                    print("    " + ln)
    print(f"{bad} of {len(roots)} roots not silent")
