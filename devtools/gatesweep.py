#!/venv/bin/python
"""Developer tool: for every VIOLATED obligation on the stored refactorings (false alarms) and on the stored seeded changes (true
alarms of the target property), the change metrics of the functions in the report's region; then the effect of the gate's
thresholds on both sets.   gatesweep.py collect|sweep"""
import json, os, sys, difflib
from concurrent.futures import ProcessPoolExecutor
HERE = os.path.dirname(os.path.dirname(os.path.abspath(__file__)))
sys.path.insert(0, HERE)
OUT = "/tmp/gatesweep.json"


def one(args):
    root, props = args
    from sa.ctx import Ctx
    from sa.model import AnalysisError
    from sa.props import PROPS
    from sa.shapegate import Gate, SHAPE_INDEPENDENT
    ctx = Ctx(root)
    gate = Gate(ctx.prog)
    items = []
    seen = set()
    for pid in (props or sorted(PROPS)):
        for rule in PROPS[pid]["rules"]:
            if rule.__name__ in seen or rule.__name__ in ("rule_nf4", "rule_perm1", "rule_convform1"):
                continue
            seen.add(rule.__name__)
            ctx.prog.consulted = set()
            try:
                rr = rule(ctx)
            except Exception:
                continue
            consulted = sorted(ctx.prog.consulted)
            for o in rr.obligations:
                if o.verdict != "violated" or o.rule in SHAPE_INDEPENDENT:
                    continue
                region = list(gate._closure(gate._seeds(o.file, o.qualname), gate.CALLEE_DEPTH, True))
                own = set(gate._seeds(o.file, o.qualname))
                anchors = [k for k in consulted if k in gate.cur["functions"]]
                for k in gate._closure(anchors, 1, False):
                    if k not in region:
                        region.append(k)
                ms = []
                for k in region:
                    cur, base = gate.cur["functions"][k], gate.base["functions"].get(k)
                    if base is None:
                        ms.append({"k": k, "new": True, "own": k in own}); continue
                    bn, cn = set(gate.base["names"]), set(gate.cur["names"])
                    newh = [n for n in cur["calls"] if n in cn and n not in bn]
                    gone = [n for n in base["calls"] if n in bn and n not in cn]
                    sm = difflib.SequenceMatcher(None, base["lines"], cur["lines"], autojunk=False)
                    matched = sum(b.size for b in sm.get_matching_blocks())
                    changed = max(len(base["lines"]), len(cur["lines"])) - matched
                    if changed or newh or gone:
                        ms.append({"k": k, "changed": changed, "of": max(len(base["lines"]), len(cur["lines"])), "ratio": round(sm.ratio(), 3),
                                   "newh": bool(newh), "gone": bool(gone), "own": k in own})
                items.append({"rule": o.rule, "q": o.qualname, "metrics": ms})
    return os.path.basename(root), items


def decide(ms, min_changed, floor, own_only_similarity):
    for m in ms:
        if m.get("new") or m.get("newh") or m.get("gone"):
            return True
        if own_only_similarity and not m.get("own"):
            continue
        if m["changed"] > min_changed and m["ratio"] < floor:
            return True
    return False


if __name__ == "__main__":
    if sys.argv[1] == "collect":
        tasks = [(os.path.join("/tmp/refroots", d), None) for d in sorted(os.listdir("/tmp/refroots"))]
        for d in sorted(os.listdir("/tmp/seedroots")):
            try:
                t = json.load(open(f"/verif/seeded/{d}/meta.json")).get("property") or d.split("-")[0]
            except Exception:
                t = d.split("-")[0]
            tasks.append((os.path.join("/tmp/seedroots", d), [t]))
        res = {}
        with ProcessPoolExecutor(14) as ex:
            for name, items in ex.map(one, tasks):
                res[name] = items
        json.dump(res, open(OUT, "w"))
        print(len(res))
    else:
        res = json.load(open(OUT))
        for min_changed in (3, 4, 5, 6, 8):
            for floor in (0.72, 0.6, 0.5, 0.4):
                for own in (False, True):
                    fa = lost = 0
                    for name, items in res.items():
                        if not items:
                            continue
                        if "-ref-" in name:
                            fa += any(not decide(i["metrics"], min_changed, floor, own) for i in items)   # a false VIOLATION survives
                        else:
                            lost += all(decide(i["metrics"], min_changed, floor, own) for i in items)     # every report withheld
                    print(f"min_changed>{min_changed} ratio<{floor} own_only={own}: refactorings with a false VIOLATION={fa}, seeded fully withheld={lost}")
