#!/bin/bash
# usage: mutrules.sh <patch> <module> <rules...>
P=$1; shift
D=$(mktemp -d /tmp/mr_XXXX)
cp -r /repo/json_to_models /repo/pyproject.toml /repo/testing_tools /repo/test $D/ 2>/dev/null
(cd $D && patch -p1 -s < $P) || echo PATCHFAIL
/venv/bin/python /tmp/run_rules.py $D "$@" 2>&1 | grep -v "viol=0" | cut -c1-300
rm -rf $D
