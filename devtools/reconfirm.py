import os, subprocess, sys, tempfile
PY="/venv/bin/python"
def sh(cmd,cwd,env=None,timeout=1500):
    e=dict(os.environ); e.update(env or {})
    r=subprocess.run(cmd,cwd=cwd,env=e,capture_output=True,text=True,timeout=timeout); return r.returncode, r.stdout+r.stderr
wt=tempfile.mkdtemp(prefix="reconf_",dir="/tmp"); os.rmdir(wt)
subprocess.check_call(["git","-C","/repo","worktree","add","-q","--detach",wt,"HEAD"])
env={"PYTHONPATH":wt,"PYTHONDONTWRITEBYTECODE":"1"}
try:
    for sid in sys.argv[1:]:
        d=f"/verif/seeded/{sid}"
        sh(["git","checkout","-q","--","."],wt)
        rc,out=sh(["git","apply",f"{d}/patch.diff"],wt)
        if rc: print(sid,"PATCH FAILED",out[:200]); continue
        rc,out=sh([PY,"-m","pytest","-q","-p","no:cacheprovider","-n","8","--timeout=900","test"],wt,env)
        tail=out.strip().splitlines()[-1]
        rm,om=sh([PY,f"{d}/demo.py"],wt,env,600)
        sh(["git","checkout","-q","--","."],wt)
        rc2,oc=sh([PY,f"{d}/demo.py"],wt,env,600)
        print(sid,"OK" if ("428 passed" in tail and rm!=0 and rc2==0) else "BAD",tail[-40:],rm,rc2)
        if rc2!=0: print(oc[-600:])
        if rm==0: print(om[-300:])
finally:
    subprocess.call(["git","-C","/repo","worktree","remove","--force",wt])
