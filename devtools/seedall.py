#!/venv/bin/python
"""Developer tool: the rules of each stored seeded change's target property (ungated; NF-4 / PERM-1 excepted), under the committed
analyser (OLD, an export of HEAD) and the working one (NEW): which detections were lost or gained.
    seedall.py      env OLD=/tmp/vold NEW=/verif ROOTS=/tmp/seedroots"""
import json, os, subprocess, sys
from concurrent.futures import ThreadPoolExecutor
OLD, NEW = os.environ.get("OLD", "/tmp/vold"), os.environ.get("NEW", "/verif")
ROOTS = os.environ.get("ROOTS", "/tmp/seedroots")
N = 7
SNIPPET = r'''
import sys, os, json
sys.path.insert(0, sys.argv[1])
from sa.ctx import Ctx
from sa.model import AnalysisError
import sa.props as P
K, N = map(int, os.environ["CHUNK"].split("/"))
out = {}
for root in sorted(os.listdir(sys.argv[2]))[K::N]:
    try:
        t = json.load(open(f"/verif/seeded/{root}/meta.json")).get("property") or root.split("-")[0]
    except Exception:
        t = root.split("-")[0]
    ctx = Ctx(os.path.join(sys.argv[2], root))
    res = []
    for rule in P.PROPS[t]["rules"]:
        if rule.__name__ in ("rule_nf4", "rule_perm1"):
            res.append("?:" + rule.__name__); continue
        try:
            rr = rule(ctx)
            if rr.instances < rr.floor: res.append("E:" + rr.rule + ":floor")
            res += sorted({"V:" + o.rule for o in rr.obligations if o.verdict == "violated"})
        except AnalysisError as e:
            res.append("E:" + str(e)[:50])
        except Exception as e:
            res.append("X:" + rule.__name__ + repr(e)[:80])
    out[root] = res
print(json.dumps(out))
'''
def run(args):
    tree, k = args
    r = subprocess.run(["/venv/bin/python", "-c", SNIPPET, tree, ROOTS], capture_output=True, text=True, env=dict(os.environ, CHUNK=f"{k}/{N}"))
    if r.returncode:
        print(r.stderr[-3000:]); os._exit(1)
    return tree, json.loads(r.stdout.strip().splitlines()[-1])
a, b = {}, {}
with ThreadPoolExecutor(2 * N) as ex:
    for tree, d in ex.map(run, [(t, k) for t in (OLD, NEW) for k in range(N)]):
        (a if tree == OLD else b).update(d)
def V(x): return {y for y in x if y.startswith("V:") and y != "V:CONVFORM-1"}
lost = {k: (sorted(V(a[k])), [y for y in b[k] if not y.startswith("?")]) for k in a if V(a[k]) and not V(b[k])}
less = {k: (sorted(V(a[k]) - V(b[k]))) for k in a if V(a[k]) - V(b[k]) and V(b[k])}
gained = {k: sorted(V(b[k]) - V(a[k])) for k in a if V(b[k]) - V(a[k])}
newerr = {k: [y for y in b[k] if y[0] in "EX"] for k in a if [y for y in b[k] if y[0] in "EX"] != [y for y in a[k] if y[0] in "EX"]}
print(f"old: {sum(bool(V(x)) for x in a.values())} with a pattern-rule violation, new: {sum(bool(V(x)) for x in b.values())}")
print("LOST (no rule fires any more):", json.dumps(lost, indent=1))
print("fewer rules fire:", json.dumps(less))
print("GAINED:", json.dumps(gained))
print("errors changed:", json.dumps(newerr, indent=1))
