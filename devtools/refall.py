#!/venv/bin/python
"""Developer tool: every registered rule (ungated; NF-4 / PERM-1 excepted) over the scratch roots of all stored behaviour-preserving
refactorings; the false alarms and analysis errors grouped by rule.   refall.py [out.json]      env ROOTS=/tmp/refroots"""
import json, os, sys, traceback
from concurrent.futures import ProcessPoolExecutor
HERE = os.path.dirname(os.path.dirname(os.path.abspath(__file__)))
sys.path.insert(0, HERE)
ROOTS = os.environ.get("ROOTS", "/tmp/refroots")
SKIP = {"rule_nf4", "rule_perm1"}


def one(root):
    from sa.ctx import Ctx
    from sa.model import AnalysisError
    from sa.props import PROPS
    out = []
    ctx = Ctx(root)
    seen = set()
    for pid, spec in PROPS.items():
        for rule in spec["rules"]:
            nm = f"{rule.__module__.split('.')[-1]}:{rule.__name__}"
            if nm in seen or rule.__name__ in SKIP:
                continue
            seen.add(nm)
            try:
                rr = rule(ctx)
            except AnalysisError as e:
                out.append((nm, "E", str(e)[:300]))
                continue
            except Exception as e:
                out.append((nm, "X", repr(e)[:200] + " " + traceback.format_exc().splitlines()[-3].strip()))
                continue
            if rr.instances < rr.floor:
                out.append((nm, "E", f"{rr.rule}: floor {rr.instances}<{rr.floor}"))
            for o in rr.obligations:
                if o.verdict == "violated":
                    out.append((nm, "V", f"{o.rule} {o.qualname} | {o.text[:80]} | {o.how[:220]}"))
    return os.path.basename(root), out


if __name__ == "__main__":
    roots = ["/repo"] + sorted(os.path.join(ROOTS, d) for d in os.listdir(ROOTS))
    by_rule = {}
    noisy = 0
    with ProcessPoolExecutor(12) as ex:
        for root, out in ex.map(one, roots):
            noisy += bool(out)
            for nm, kind, msg in out:
                by_rule.setdefault(nm, []).append((root, kind, msg))
    for nm, items in sorted(by_rule.items(), key=lambda kv: -len({r for r, _, _ in kv[1]})):
        print(f"{nm}: {len({r for r, _, _ in items})} roots")
        for root, kind, msg in items:
            print(f"    {root} {kind} {msg}")
    print(f"{noisy} of {len(roots)} roots not silent; {len(by_rule)} rules involved")
    if len(sys.argv) > 1:
        json.dump(by_rule, open(sys.argv[1], "w"), indent=1)
