#!/venv/bin/python
"""Developer tool: which stored seeded changes does a rule fire on (ungated)?  Compare two analyser trees.
    seedcmp.py <rule function> [...]     env OLD=/verif NEW=/tmp/vdev ROOTS=/tmp/seedroots"""
import json, os, subprocess, sys
from concurrent.futures import ThreadPoolExecutor
OLD, NEW = os.environ.get("OLD", "/tmp/vold"), os.environ.get("NEW", "/verif")
ROOTS = os.environ.get("ROOTS", "/tmp/seedroots")
SNIPPET = r'''
import sys, os, json
sys.path.insert(0, sys.argv[1])
from sa.ctx import Ctx
from sa.model import AnalysisError
import sa.props as P
names = sys.argv[3:]
FN = {r.__name__: r for spec in P.PROPS.values() for r in spec["rules"]}
out = {}
K, N = map(int, os.environ.get("CHUNK", "0/1").split("/"))
for root in sorted(os.listdir(sys.argv[2]))[K::N]:
    try:
        ctx = Ctx(os.path.join(sys.argv[2], root))
    except Exception as e:
        out[root] = ["LOAD"]; continue
    res = []
    for nm in names:
        try:
            rr = FN[nm](ctx)
            if rr.instances < rr.floor: res.append("E:floor")
            res += sorted({"V:" + o.rule for o in rr.obligations if o.verdict == "violated"})
        except AnalysisError as e:
            res.append("E:" + str(e)[:60])
        except Exception as e:
            res.append("X:" + repr(e)[:60])
    if res: out[root] = res
print(json.dumps(out))
'''
N = 6
def run(args):
    tree, k = args
    r = subprocess.run(["/venv/bin/python", "-c", SNIPPET, tree, ROOTS] + sys.argv[1:], capture_output=True, text=True,
                       env=dict(os.environ, CHUNK=f"{k}/{N}"))
    if r.returncode:
        print(r.stderr[-2000:]); os._exit(1)
    return tree, json.loads(r.stdout.strip().splitlines()[-1])
a, b = {}, {}
with ThreadPoolExecutor(2 * N) as ex:
    for tree, d in ex.map(run, [(t, k) for t in (OLD, NEW) for k in range(N)]):
        (a if tree == OLD else b).update(d)
lost = {k: v for k, v in a.items() if any(x.startswith("V:") for x in v) and not any(x.startswith("V:") for x in b.get(k, []))}
gained = {k: v for k, v in b.items() if any(x.startswith("V:") for x in v) and not any(x.startswith("V:") for x in a.get(k, []))}
print(f"old fires on {sum(any(x.startswith('V:') for x in v) for v in a.values())}, new on {sum(any(x.startswith('V:') for x in v) for v in b.values())}")
print("LOST:", json.dumps({k: (a[k], b.get(k)) for k in lost}, indent=1))
print("GAINED:", json.dumps(gained, indent=1))
errs = {k: v for k, v in b.items() if any(not x.startswith("V:") for x in v) and v != a.get(k)}
print("NEW ERRORS:", json.dumps(errs, indent=1))
