import re, sys
p=open('/verif/sa/props.py').read()
def add(pid, *rules):
    global p
    mm=re.search(r'prop\("%s", \[(.*?)\],\n     "' % pid, p, re.S)
    body=mm.group(1)
    for r in rules:
        mod,fn=r.split(":")
        item=f'_lazy("{mod}", "{fn}")'
        if item in body: continue
        body=body.rstrip()+f",\n             {item}"
    p=p[:mm.start(1)]+body+p[mm.end(1):]
for spec in sys.argv[1:]:
    pid,rules=spec.split("=")
    add(pid,*rules.split(","))
open('/verif/sa/props.py','w').write(p)
