#!/venv/bin/python
"""Developer tool: differential check only (no suite) for the micro-edits <base>/<P>/<round dir>/<k>/patch.diff with the shared
<round dir>/equiv.py: the output with the edit equals the output on the clean tree (scratch paths masked; when the output ends
in a 64-digit hex digest, the digests are compared).   microequiv.py /tmp/ref8 MICRO2 [C01 ...]"""
import json, os, re, subprocess, sys, tempfile
from concurrent.futures import ThreadPoolExecutor
PY = "/venv/bin/python"
HEX = re.compile(r"[0-9a-f]{64}")


def sh(cmd, cwd, env=None, timeout=1500):
    e = dict(os.environ); e.update(env or {})
    try:
        r = subprocess.run(cmd, cwd=cwd, env=e, capture_output=True, text=True, timeout=timeout)
        return r.returncode, r.stdout + r.stderr
    except subprocess.TimeoutExpired:
        return 124, "timeout"


def signature(rc, out, wt):
    out = out.replace(wt, "<WT>")
    ds = HEX.findall(out)
    return (rc, ds[-1]) if ds else (rc, out[-4000:])


def run(base, pid, rnd, k):
    wt = tempfile.mkdtemp(prefix="miceq_", dir="/tmp"); os.rmdir(wt)
    subprocess.check_call(["git", "-C", "/repo", "worktree", "add", "-q", "--detach", wt, "HEAD"])
    try:
        if k is not None:
            rc, o = sh(["git", "apply", os.path.join(base, pid, rnd, k, "patch.diff")], wt)
            if rc:
                return (pid, k), ("patch does not apply", o[:100])
        rc, o = sh([PY, os.path.join(base, pid, rnd, "equiv.py")], wt, {"PYTHONPATH": wt, "PYTHONDONTWRITEBYTECODE": "1", "PYTHONHASHSEED": "0"})
        return (pid, k), signature(rc, o, wt)
    finally:
        subprocess.call(["git", "-C", "/repo", "worktree", "remove", "--force", wt])


if __name__ == "__main__":
    base, rnd = sys.argv[1], sys.argv[2]
    pids = sys.argv[3:] or sorted(p for p in os.listdir(base) if os.path.isdir(os.path.join(base, p, rnd)))
    tasks = []
    for p in pids:
        tasks += [(base, p, rnd, None), (base, p, rnd, None)]      # the clean tree twice: is the script deterministic here?
        tasks += [(base, p, rnd, k) for k in sorted(os.listdir(os.path.join(base, p, rnd))) if os.path.isfile(os.path.join(base, p, rnd, k, "patch.diff"))]
    jobs = int(os.environ.get("JOBS", "6"))
    res = {}
    clean = {}
    with ThreadPoolExecutor(jobs) as ex:
        for (pid, k), sig in ex.map(lambda t: run(*t), tasks):
            if k is None:
                clean.setdefault(pid, []).append(sig)
            else:
                res[(pid, k)] = sig
    out = {}
    for (pid, k), sig in sorted(res.items()):
        c = clean[pid]
        stable = c[0] == c[1] and c[0][0] == 0
        ok = stable and tuple(sig) == tuple(c[0])
        out[f"{pid}-{k}"] = {"same": ok, "clean_stable": stable}
        if not ok:
            print(pid, k, "DIFFERENT" if stable else "clean run not stable / failed", str(sig)[:120], str(c[0])[:120], flush=True)
    print(sum(v["same"] for v in out.values()), "of", len(out), "give the output of the clean tree")
    json.dump(out, open(os.path.join(base, f"microequiv_{rnd}.json"), "w"), indent=1)
