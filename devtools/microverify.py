#!/venv/bin/python
"""Developer tool: verify the behaviour-preserving micro-edits delivered by sub-agents (<base>/<P>/MICRO/<k>/patch.diff, shared
<base>/<P>/MICRO/equiv.py): the suite passes with the edit and equiv.py prints the same last line with and without it.
    microverify.py /tmp/ref8 [C01 ...]   -> <base>/microverify.json"""
import json, os, subprocess, sys, tempfile
from concurrent.futures import ThreadPoolExecutor
PY = "/venv/bin/python"


def sh(cmd, cwd, env=None, timeout=1800):
    e = dict(os.environ); e.update(env or {})
    try:
        r = subprocess.run(cmd, cwd=cwd, env=e, capture_output=True, text=True, timeout=timeout)
        return r.returncode, r.stdout + r.stderr
    except subprocess.TimeoutExpired:
        return 124, "timeout"


def worktree():
    wt = tempfile.mkdtemp(prefix="micchk_", dir="/tmp"); os.rmdir(wt)
    subprocess.check_call(["git", "-C", "/repo", "worktree", "add", "-q", "--detach", wt, "HEAD"])
    return wt


def last(o):
    return (o.strip().splitlines() or [""])[-1]


def clean_digest(base, pid):
    wt = worktree()
    try:
        rc, o = sh([PY, os.path.join(base, pid, "MICRO", "equiv.py")], wt, {"PYTHONPATH": wt, "PYTHONDONTWRITEBYTECODE": "1", "PYTHONHASHSEED": "0"}, 1200)
        return pid, (rc, last(o))
    finally:
        subprocess.call(["git", "-C", "/repo", "worktree", "remove", "--force", wt])


def verify(args):
    base, pid, k, clean = args
    d = os.path.join(base, pid, "MICRO", k)
    out = {"id": f"{pid}-mic-{k}"}
    wt = worktree()
    try:
        env = {"PYTHONPATH": wt, "PYTHONDONTWRITEBYTECODE": "1", "PYTHONHASHSEED": "0"}
        rc, o = sh(["git", "apply", os.path.join(d, "patch.diff")], wt)
        if rc:
            out["status"] = "patch does not apply"; return out
        rc, o = sh([PY, "-m", "pytest", "-q", "-p", "no:cacheprovider", "-n", "3", "--timeout=900", "test"], wt, env)
        out["suite"] = last(o)[-40:]
        rc1, o1 = sh([PY, os.path.join(base, pid, "MICRO", "equiv.py")], wt, env, 1200)
        out["equiv_same"] = (rc1, last(o1)) == tuple(clean) and rc1 == 0
        out["status"] = "verified" if "428 passed" in out["suite"] and out["equiv_same"] else "NOT VERIFIED"
        if not out["equiv_same"]:
            out["equiv"] = [(rc1, last(o1)[:100]), clean]
    finally:
        subprocess.call(["git", "-C", "/repo", "worktree", "remove", "--force", wt])
    return out


if __name__ == "__main__":
    base = sys.argv[1]
    pids = sys.argv[2:] or sorted(p for p in os.listdir(base) if os.path.isdir(os.path.join(base, p, "MICRO")))
    with ThreadPoolExecutor(5) as ex:
        clean = dict(ex.map(lambda p: clean_digest(base, p), pids))
    tasks = [(base, p, k, clean[p]) for p in pids for k in sorted(os.listdir(os.path.join(base, p, "MICRO"))) if os.path.isfile(os.path.join(base, p, "MICRO", k, "patch.diff"))]
    res = []
    with ThreadPoolExecutor(5) as ex:
        for r in ex.map(verify, tasks):
            res.append(r); print(r["id"], r.get("status"), r.get("suite", ""), flush=True)
    json.dump(res, open(os.path.join(base, "microverify.json"), "w"), indent=1)
    print(sum(r.get("status") == "verified" for r in res), "of", len(res), "verified")
