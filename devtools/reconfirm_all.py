import os, subprocess, sys, tempfile, glob
from concurrent.futures import ThreadPoolExecutor
PY="/venv/bin/python"
def sh(cmd,cwd,env=None,timeout=1800):
    e=dict(os.environ); e.update(env or {})
    try:
        r=subprocess.run(cmd,cwd=cwd,env=e,capture_output=True,text=True,timeout=timeout); return r.returncode, r.stdout+r.stderr
    except subprocess.TimeoutExpired:
        return 124, "timeout"
sids=sorted(os.path.basename(d.rstrip('/')) for d in glob.glob('/verif/seeded/*/'))
if len(sys.argv)>1: sids=[s for s in sids if any(s.startswith(a) for a in sys.argv[1:])]
N=6
chunks=[sids[i::N] for i in range(N)]
def work(ch):
    wt=tempfile.mkdtemp(prefix="reconf_",dir="/tmp"); os.rmdir(wt)
    subprocess.check_call(["git","-C","/repo","worktree","add","-q","--detach",wt,"HEAD"])
    env={"PYTHONPATH":wt,"PYTHONDONTWRITEBYTECODE":"1"}
    out=[]
    try:
        for sid in ch:
            d=f"/verif/seeded/{sid}"
            sh(["git","checkout","-q","--","."],wt); sh(["git","clean","-fdq","json_to_models"],wt)
            rc,o=sh(["git","apply",f"{d}/patch.diff"],wt)
            if rc: out.append(f"{sid} PATCH FAILED"); print(out[-1],flush=True); continue
            rc,o=sh([PY,"-m","pytest","-q","-p","no:cacheprovider","-n","3","--timeout=900","test"],wt,env)
            tail=o.strip().splitlines()[-1] if o.strip() else ""
            rm,om=sh([PY,f"{d}/demo.py"],wt,env,900)
            sh(["git","checkout","-q","--","."],wt); sh(["git","clean","-fdq","json_to_models"],wt)
            rc2,oc=sh([PY,f"{d}/demo.py"],wt,env,900)
            ok="428 passed" in tail and rm!=0 and rc2==0
            out.append(f"{sid} {'OK' if ok else 'BAD'} suite='{tail[-40:]}' mut={rm} clean={rc2}")
            print(out[-1],flush=True)
    finally:
        subprocess.call(["git","-C","/repo","worktree","remove","--force",wt])
    return out
with ThreadPoolExecutor(N) as ex:
    res=[x for r in ex.map(work,chunks) for x in r]
bad=[r for r in res if ' OK ' not in r]
print("TOTAL",len(res),"BAD",len(bad))
for b in bad: print("  ",b)
