"""Silent twins for the rules added against the sixth batch of seeded changes; see make_twins.py."""
J = "json_to_models/"

ROUND6 = [
    ("json_loader_strict_errors", "the JSON loader spells out the strict error policy", [
        (J + "cli.py", "    def json(path: Path) -> Union[dict, list]:\n        with path.open() as fp:\n",
         "    def json(path: Path) -> Union[dict, list]:\n        with path.open(errors=\"strict\") as fp:\n"),
    ]),
    ("json_loader_loads_text", "the JSON loader parses the text of the file", [
        (J + "cli.py", "            return json.load(fp)\n", "            return json.loads(fp.read())\n"),
    ]),
    ("is_date_inline_defaults", "is_date spells its two defaults inline", [
        (J + "dynamic_typing/string_datetime.py",
         "    d1 = dateutil.parser.parse(s, default=_check_values_date[0])\n    d2 = dateutil.parser.parse(s, default=_check_values_date[1])\n"
         "    return None if d1 == d2 else d1.date()\n",
         "    d1 = dateutil.parser.parse(s, default=datetime(2018, 1, 2, 0, 4, 5, 678, tzinfo=None))\n"
         "    d2 = dateutil.parser.parse(s, default=datetime(2018, 1, 2, 9, 4, 5, 678, tzinfo=None))\n    if d1 != d2:\n        return d1.date()\n    return None\n"),
    ]),
    ("filter_pointers_is_not_none", "filter_pointers asks whether the pointer has a parent with `is not None`", [
        (J + "models/structure.py", "    return (ptr for ptr in model.pointers if ptr.parent)\n",
         "    return (ptr for ptr in model.pointers if ptr.parent is not None)\n"),
    ]),
    ("parents_set_call", "the parent models are collected with set(...)", [
        (J + "models/structure.py",
         "            parents = {ptr.parent.index for ptr in pointers}\n            struct = structure_hash_table[key]\n"
         "            # Model is using by other models\n            if has_root_pointers or len(parents) > 1 and len(struct[\"roots\"]) > 1:\n",
         "            parents = set(ptr.parent.index for ptr in pointers)\n            struct = structure_hash_table[key]\n"
         "            # Model is using by other models\n            if has_root_pointers or len(parents) > 1 and len(struct[\"roots\"]) > 1:\n"),
    ]),
    ("run_loop_by_name", "Cli.run walks the model names and takes the samples by name", [
        (J + "cli.py", "        for name, data in self.models_data.items():\n            meta = generator.generate(*data)\n",
         "        for name in self.models_data:\n            data = self.models_data[name]\n            meta = generator.generate(*data)\n"),
    ]),
    ("generate_code_new_trailing_param", "generate_code gets a new keyword parameter after the released ones", [
        (J + "models/base.py", "                  preamble: str = None) -> str:\n", "                  preamble: str = None, _reserved: None = None) -> str:\n"),
    ]),
    ("resolve_memo_invalidated", "resolve() remembers its answers and every change of the registry empties the table", [
        (J + "dynamic_typing/string_serializable.py", "        self.replaces: Set[Tuple[T_StringSerializable, T_StringSerializable]] = set()\n",
         "        self.replaces: Set[Tuple[T_StringSerializable, T_StringSerializable]] = set()\n        self._resolved: Dict[frozenset, frozenset] = {}\n"),
        (J + "dynamic_typing/string_serializable.py", "        def decorator(cls):\n", "        def decorator(cls):\n            self._resolved.clear()\n"),
        (J + "dynamic_typing/string_serializable.py", "        self.types.remove(cls)\n        for base, replace in list(self.replaces):\n",
         "        self.types.remove(cls)\n        self._resolved.clear()\n        for base, replace in list(self.replaces):\n"),
        (J + "dynamic_typing/string_serializable.py", "        types = set(types)\n",
         "        types = set(types)\n        known = self._resolved.get(frozenset(types))\n        if known is not None:\n            return set(known)\n"),
        (J + "dynamic_typing/string_serializable.py", "                resolved.discard(t1)\n        return resolved\n",
         "                resolved.discard(t1)\n        self._resolved[frozenset(types)] = frozenset(resolved)\n        return resolved\n"),
    ]),
    ("dict_keys_fields_as_list_helper", "the list option goes through a helper that only copies it", [
        (J + "cli.py", "        dict_keys_fields: List[str] = namespace.dict_keys_fields\n",
         "        dict_keys_fields: List[str] = _as_list(namespace.dict_keys_fields)\n"),
        (J + "cli.py", "class FileLoaders:\n", "def _as_list(values):\n    return list(values) if values is not None else None\n\n\nclass FileLoaders:\n"),
    ]),
    ("argv_read_into_local", "the header reads sys.argv into a local first", [
        (J + "cli.py", "        command = \" \".join(sys.argv).replace('\"\"\"', \"'''\")\n",
         "        argv = list(sys.argv)\n        command = \" \".join(argv).replace('\"\"\"', \"'''\")\n"),
    ]),
    ("detect_value_alias", "the detector keeps the observed string under a second name", [
        (J + "generator.py", "            return StringLiteral({value})\n", "            observed = value\n            return StringLiteral({observed})\n"),
    ]),
    ("registry_rename_generated_only", "the registry renames a duplicate only when its name was generated (the generators "
     "de-duplicate the class names again after normalising them)", [
        (J + "registry.py", "            if counter[model.name] > 1:\n", "            if counter[model.name] > 1 and model.is_name_generated:\n"),
    ]),
    ("merge_without_immediate_optimize", "a merged model is simplified by the pass over all models only (one pass is a fixed point)", [
        (J + "registry.py", "            model_meta = self._merge(generator, *sorted(group, key=lambda model: order[model.index]))\n            generator.optimize_type(model_meta)\n",
         "            model_meta = self._merge(generator, *sorted(group, key=lambda model: order[model.index]))\n"),
    ]),
    ("pydantic_filter_comprehension", "the pydantic field filter is written as a comprehension", [
        (J + "models/pydantic.py",
         "        filtered = []\n        for field in fields:\n            field_type = self.model.type[field]\n            if field_type in (Unknown, Null):\n"
         "                continue\n            filtered.append(field)\n        return filtered\n",
         "        return [field for field in fields if self.model.type[field] not in (Unknown, Null)]\n"),
    ]),
    ("unresolved_pseudo_types_if_statement", "more than one pseudo-type left becomes str in an if statement", [
        (J + "generator.py", "            other_types.append(str if len(str_types) > 1 else next(iter(str_types)))\n",
         "            if len(str_types) > 1:\n                other_types.append(str)\n            else:\n                other_types.append(next(iter(str_types)))\n"),
    ]),
    ("matched_files_listed_first", "the files an argument matches are listed before they are read", [
        (J + "cli.py",
         "            matched = False\n            for real_path in process_path(path_raw):\n                matched = True\n"
         "                iterator = iter_json_file(parser(real_path), lookup)\n                models_dict[model_name].extend(iterator)\n"
         "            if not matched:\n",
         "            paths = list(process_path(path_raw))\n            for real_path in paths:\n"
         "                iterator = iter_json_file(parser(real_path), lookup)\n                models_dict[model_name].extend(iterator)\n"
         "            if not paths:\n"),
    ]),
    ("extract_root_any_root_pointer", "extract_root asks for a pointer without a parent with any()", [
        (J + "models/structure.py", "        if len(filtered) != len(node.parent.pointers):\n",
         "        if any(ptr.parent is None for ptr in node.parent.pointers):\n"),
    ]),
    ("grouping_loop_while_true", "the loop that joins overlapping groups is a `while True` with a break", [
        (J + "registry.py", "        flag = True\n        while flag:\n            flag = False\n            new_groups: OrderedSet[FrozenSet[ModelMeta]] = OrderedSet()\n",
         "        while True:\n            flag = False\n            new_groups: OrderedSet[FrozenSet[ModelMeta]] = OrderedSet()\n"),
        (J + "registry.py", "            if flag:\n                groups: OrderedSet[FrozenSet[ModelMeta]] = new_groups\n",
         "            if not flag:\n                break\n            groups: OrderedSet[FrozenSet[ModelMeta]] = new_groups\n"),
    ]),
    ("unknown_removed_by_filter", "every Unknown is taken out of the candidates with a comprehension", [
        (J + "generator.py", "            while Unknown in types:\n                types.remove(Unknown)\n",
         "            types = [x for x in types if x is not Unknown]\n"),
    ]),
]
