#!/venv/bin/python
"""Self-validation battery: seeded breaks must be reported for their property, silent twins must stay silent, and no check may
print a VIOLATION on a verified behaviour-preserving refactoring (selftest/refactorings/: exit 0, or exit 2 = verdict withheld).

    selftest/run.py [--jobs 16] [--only C06] [--json out.json] [--skip-refactorings]

For every /verif/seeded/<id>/patch.diff and /verif/selftest/twins/<name>.diff: copy /repo's working tree to a scratch
directory (mkdtemp, removed afterwards), apply the patch, run the registered checks on it (evidence goes to the scratch
directory) and compare with the expectation.  Results are returned as a dict; exit status 0 iff everything matched.
Patches that no longer apply (the tree under test was edited) are reported as `inapplicable`, not as failures.
"""
from __future__ import annotations

import argparse
import glob
import json
import os
import shutil
import subprocess
import sys
import tempfile
from concurrent.futures import ThreadPoolExecutor

HERE = os.path.dirname(os.path.abspath(__file__))
VERIF = os.path.dirname(HERE)
REPO = os.environ.get("J2M_ROOT", "/repo")
sys.path.insert(0, VERIF)

# seeded changes that break a property in a way no rule of this family reaches (stated in DESIGN.md section 10)
EXPECTED_MISS = {
    "C01-3": "BooleanString accepts padded strings that pydantic's bool parser rejects (parser languages)",
    "C12-r7-1": "where the flat layout inserts a model is arithmetic on run-time positions (PositionsDict): that every model is "
                "placed once on every path is decided (LAY-1), that the root comes first is not",
}


# behaviour-preserving micro-edits (selftest/micro/) on which a rule stops with an ANALYSIS-ERROR (exit 2) instead of staying silent:
# the edit replaces the very construct the rule is anchored in by another algorithm or another API form
MICRO_UNDECIDED = {
    "C04-mic-6": "INJ-5: indent() rewritten from split/join to str.replace - the anchor (the split) is gone",
    "C09-mic2-7": "COVER-1: the datetime types are registered through the decorator form registry.add()(cls) - the registrations are not counted",
    "C09-mic2-10": "REGDELIV-1: remove_by_name is called through a local alias of the bound method",
    "C14-mic3-8": "REGDELIV-1: remove_by_name is called through a local alias of the bound method",
    "C12-mic3-4": "LAY-4: the set of parents is built by a loop of add() instead of a comprehension - the instance is not counted",
    "C14-mic3-10": "CACHE-1/2: the cache is written through __setitem__ - the store is not recognised",
    "C17-mic3-1": "LOAD-2: the loop over process_path(...) runs over enumerate(..., 1) - the anchor is not found",
}
# behaviour-preserving micro-edits of the third round (written to be hard for a tool that works on the syntax tree) on which a
# recogniser still prints a VIOLATION: the false alarms that are left, each with the respelling that causes it (DESIGN.md 10.7)
MICRO_FALSE_ALARMS = {
    "C01-mic3-3": "NF-1/2/3: `len(united := field.type) == 1` - the size test goes through a local that holds the property's value",
    "C04-mic3-1": "LAY-2: `self.BODY.render(data)` instead of `render(**data)` (jinja2 builds the same context)",
    "C05-mic3-2": "CMP-2: `ge(len(a & b), n)` with `from operator import ge` instead of `len(a & b) >= n`",
    "C09-mic3-2": "DET-3: the pairs are purged with one `difference_update([...])` instead of a loop of remove()",
    "C09-mic3-7": "DATE-1: the two parses with different defaults are one comprehension over the pair of defaults",
    "C15-mic3-9": "TOK-1: `label + '#' + path if path else label` - the separator sits in one arm of a conditional expression",
}


# seeded changes that also restructure the code the rule looks at (a new helper, most of a small function rewritten): the rule's
# verdict is withheld by the confidence gate (sa/shapegate.py) - the check ends with exit 2 and names the rule, not with a VIOLATION
EXPECTED_WITHHELD = {
    "C04-r4-3": "CACHE-2: cached_fn rewritten for the most part (6 of 8 statement lines)",
    "C05-r4-1": "CMP-1: _models_cmp_fn rewritten for the most part (6 of 8 statement lines)",
    "C09-r6-1": "DET-3 / REGDELIV-1: the defect sits in a new helper Cli._disable_str_types",
    "C09-r6-2": "RES-1: resolve() delegates to a new helper _is_particular_case",
    "C10-r6-1": "INJ-3: to_typing_code delegates to a new helper _render",
    "C12-1": "LAY-1: compose_models delegates to a new helper new_struct",
    "C12-r4-1": "COMPOSE-1: the defect sits in a new function _structure_entry",
    "C13-2": "RX-1: the defect sits in a new function Cli._anchor_regex",
    "C13-r3-1": "DK-1..3: _detect_type delegates to a new helper _checked_keys",
    "C13-r6-2": "OPTFLOW-6k: the defect sits in a new function split_list_arg",
    "C13-r7-1": "OPT-1/4/5: merge_field_sets delegates to a new helper _empty_mapping_adds_nothing",
    "C13-r7-2": "EQ-1: ComplexType.__eq__ delegates to a new helper _sorted_keys",
    "C14-r3-3": "LABEL-1 / OPTFWD-1: the defect sits in a new method SqlModelCodeGenerator.convert_class_name",
    "C17-r2-2": "ATOM-1/2 / ENC-1: Cli.run delegates to a new helper _output_parts",
    "C17-r4-3": "EXIT-1: the defect sits in a new nested function Cli.validate.fail",
    "C18-r7-2": "RES-1: resolve() delegates to a new helper _is_particular_case",
    "C19-1": "INJ-4: version_string rewritten for the most part (6 of 7 statement lines)",
}


def _copy_repo(dst: str):
    for item in ("json_to_models", "pyproject.toml", "testing_tools", "test"):
        src = os.path.join(REPO, item)
        if os.path.isdir(src):
            shutil.copytree(src, os.path.join(dst, item), ignore=shutil.ignore_patterns("__pycache__"))
        elif os.path.isfile(src):
            shutil.copy(src, os.path.join(dst, item))


def run_one(patch: str, props):
    tmp = tempfile.mkdtemp(prefix="j2m_selftest_")
    try:
        root = os.path.join(tmp, "repo")
        os.makedirs(root)
        _copy_repo(root)
        r = subprocess.run(["patch", "-p1", "-s", "-i", patch], cwd=root, capture_output=True, text=True)
        if r.returncode != 0:
            return {"inapplicable": True}
        env = dict(os.environ, J2M_EVIDENCE_DIR=os.path.join(tmp, "ev"),
                   J2M_RULE_CACHE=os.path.join(tempfile.gettempdir(), f"j2m-rulecache-{os.getuid()}"))
        out = {}
        for pid in props:
            p = subprocess.run([sys.executable, os.path.join(VERIF, "check.py"), pid, "--root", root, "--tier", "quick"],
                               capture_output=True, text=True, env=env)
            rules = sorted({ln.strip().split(" at ")[0] for ln in p.stdout.splitlines()
                            if " at " in ln and " in " in ln and ln.startswith("  ") and not ln.startswith("   ")})
            out[pid] = {"rc": p.returncode, "rules": rules, "withheld": "verdict withheld" in p.stdout}
        return out
    finally:
        shutil.rmtree(tmp, ignore_errors=True)


def battery(only=None, jobs=16, refactorings=True):
    from sa.props import PROPS
    all_props = sorted(PROPS)
    tasks = []
    for d in sorted(glob.glob(os.path.join(VERIF, "seeded", "*"))):
        pf = os.path.join(d, "patch.diff")
        if not os.path.isfile(pf):
            continue
        sid = os.path.basename(d)
        target = sid.split("-")[0]
        try:  # a change delivered for one property but breaking another (see its meta.json note)
            target = json.load(open(os.path.join(os.path.dirname(pf), "meta.json"))).get("property", target) or target
        except Exception:
            pass
        if only and target != only:
            continue
        tasks.append(("seeded", sid, pf, [target]))
    for pf in sorted(glob.glob(os.path.join(HERE, "hand", "*.diff"))):
        meta = json.load(open(pf[:-5] + ".json"))
        if only and meta["property"] != only:
            continue
        tasks.append(("hand", "hand:" + meta["name"], pf, [meta["property"]], meta["rule"]))
    for pf in sorted(glob.glob(os.path.join(HERE, "twins", "*.diff"))):
        name = os.path.basename(pf)[:-5]
        tasks.append(("twin", name, pf, [only] if only else all_props))
    for d in sorted(glob.glob(os.path.join(HERE, "micro", "*"))) if refactorings else []:
        pf = os.path.join(d, "patch.diff")
        if os.path.isfile(pf):
            tasks.append(("micro", os.path.basename(d), pf, [only] if only else all_props))
    if refactorings:
        for d in sorted(glob.glob(os.path.join(HERE, "refactorings", "*"))):
            pf = os.path.join(d, "patch.diff")
            if os.path.isfile(pf):
                tasks.append(("refactoring", os.path.basename(d), pf, [only] if only else all_props))
    res = {"seeded": {}, "twins": {}, "refactorings": {}, "micro": {}, "failed": [], "inapplicable": []}
    with ThreadPoolExecutor(max_workers=jobs) as ex:
        futs = [(t, ex.submit(run_one, t[2], t[3])) for t in tasks]
        for n_done, (t, fu) in enumerate(futs, 1):
            kind, name, pf, props = t[:4]
            r = fu.result()
            if n_done % 50 == 0:
                print(f"[{n_done}/{len(futs)}]", file=sys.stderr, flush=True)
            if r.get("inapplicable"):
                res["inapplicable"].append(name)
                continue
            if kind == "hand":
                target = props[0]
                hit = r[target]["rc"] == 1 and any(x.split(" ")[0] == t[4] for x in r[target]["rules"])
                res.setdefault("hand", {})[name] = {"detected": hit, "rc": r[target]["rc"], "rules": r[target]["rules"], "rule": t[4]}
                if not hit:
                    res["failed"].append(f"{name}: rule {t[4]} did not report it (rc={r[target]['rc']}, {r[target]['rules']})")
                continue
            if kind == "seeded":
                target = props[0]
                rc = r[target]["rc"]
                detected = rc == 1
                withheld = rc == 2 and r[target].get("withheld", False)
                exp_miss = name in EXPECTED_MISS
                exp_withheld = name in EXPECTED_WITHHELD
                res["seeded"][name] = {"detected": detected, "withheld": withheld, "rc": rc, "rules": r[target]["rules"],
                                       "expected": "miss (out of reach)" if exp_miss else ("verdict withheld (exit 2)" if exp_withheld else "detect")}
                if exp_withheld:
                    if not (withheld or detected):
                        res["failed"].append(f"seeded {name}: rc={rc} expected a withheld verdict (or a detection)")
                elif detected == exp_miss or rc == 2:
                    res["failed"].append(f"seeded {name}: rc={rc} expected {'miss' if exp_miss else 'detection'}")
            elif kind == "micro":
                alarms = {p: v for p, v in r.items() if v["rc"] == 1}
                errs = sorted(p for p, v in r.items() if v["rc"] == 2)
                res["micro"][name] = {"alarms": alarms, "undecided": errs, "silent": not alarms and not errs}
                if alarms and name in MICRO_FALSE_ALARMS:
                    res["micro"][name]["listed"] = MICRO_FALSE_ALARMS[name]
                elif alarms:
                    res["failed"].append(f"micro-edit {name}: VIOLATION on behaviour-preserving code {alarms}")
                elif errs and name not in MICRO_UNDECIDED:
                    res["failed"].append(f"micro-edit {name}: exit 2 for {errs} (expected silence)")
            elif kind == "refactoring":
                alarms = {p: v for p, v in r.items() if v["rc"] == 1}
                withheld = sorted(p for p, v in r.items() if v["rc"] == 2)
                res["refactorings"][name] = {"alarms": alarms, "withheld": withheld, "silent": not alarms and not withheld}
                if alarms:
                    res["failed"].append(f"refactoring {name}: VIOLATION on behaviour-preserving code {alarms}")
            else:
                noisy = {p: v for p, v in r.items() if v["rc"] != 0}
                res["twins"][name] = {"silent": not noisy, "noisy": noisy}
                if noisy:
                    res["failed"].append(f"twin {name}: {noisy}")
    res["counts"] = {"seeded": len(res["seeded"]), "seeded_detected": sum(v["detected"] for v in res["seeded"].values()),
                     "seeded_withheld": sum(v["withheld"] for v in res["seeded"].values()),
                     "twins": len(res["twins"]), "twins_silent": sum(v["silent"] for v in res["twins"].values()),
                     "micro": len(res["micro"]), "micro_silent": sum(v["silent"] for v in res["micro"].values()),
                     "micro_false_alarm": sum(bool(v["alarms"]) for v in res["micro"].values()),
                     "refactorings": len(res["refactorings"]),
                     "refactorings_no_alarm": sum(not v["alarms"] for v in res["refactorings"].values()),
                     "refactorings_all_checks_exit_0": sum(v["silent"] for v in res["refactorings"].values()),
                     "hand": len(res.get("hand", {})), "hand_detected": sum(v["detected"] for v in res.get("hand", {}).values())}
    return res


if __name__ == "__main__":
    ap = argparse.ArgumentParser()
    ap.add_argument("--jobs", type=int, default=16)
    ap.add_argument("--only")
    ap.add_argument("--json")
    ap.add_argument("--skip-refactorings", action="store_true", help="seeded changes, hand controls and twins only (about 30 minutes less)")
    a = ap.parse_args()
    res = battery(a.only, a.jobs, not a.skip_refactorings)
    for k, v in sorted(res["seeded"].items()):
        print(f"seeded {k:8s} {'DETECTED' if v['detected'] else ('withheld' if v['withheld'] else 'missed  ')} rc={v['rc']} {v['rules']} [{v['expected']}]")
    for k, v in sorted(res["twins"].items()):
        print(f"twin   {k:32s} {'silent' if v['silent'] else 'NOISY ' + json.dumps(v['noisy'])[:200]}")
    for k, v in sorted(res["micro"].items()):
        if not v["silent"]:
            print(f"micro  {k:12s} {'ALARM ' + json.dumps(v['alarms'])[:200] if v['alarms'] else 'exit 2 for ' + ' '.join(v['undecided'])}")
    for k, v in sorted(res["refactorings"].items()):
        print(f"refactoring {k:12s} {'ALARM ' + json.dumps(v['alarms'])[:200] if v['alarms'] else ('silent' if v['silent'] else 'no alarm; verdict withheld (exit 2) for ' + ' '.join(v['withheld']))}")
    print("inapplicable:", res["inapplicable"])
    print("counts:", res["counts"])
    print("FAILED:" if res["failed"] else "all expectations met", *res["failed"], sep="\n  ")
    if a.json:
        json.dump(res, open(a.json, "w"), indent=1)
    sys.exit(1 if res["failed"] else 0)
