#!/venv/bin/python
"""Developer tool: (re)generate behaviour-preserving 'silent twin' patches against /repo HEAD.

Each twin is a textual edit that keeps every property true; every check must stay silent on it.  Run after /repo
changes; a twin whose anchor text vanished is reported and skipped.
"""
import json, os, shutil, subprocess, sys, tempfile

HERE = os.path.dirname(os.path.abspath(__file__))
TW = os.path.join(HERE, "twins")

TWINS = []


def twin(name, why, edits):
    TWINS.append((name, why, edits))


J = "json_to_models/"
twin("write_text_utf8", "Path.write_text with explicit encoding is the same atomic-enough write",
     [(J + "cli.py", '''            with open(self.output_file, "w", encoding="utf-8") as f:
                f.write(output)
''', '''            Path(self.output_file).write_text(output, encoding="utf-8")
''')])
twin("path_open_utf8", "Path(...).open('w', encoding=...) instead of open()",
     [(J + "cli.py", '''            with open(self.output_file, "w", encoding="utf-8") as f:''',
       '''            with Path(self.output_file).open("w", encoding="utf-8") as f:''')])
twin("percent_threshold_on_the_left", "percent threshold with the operands swapped",
     [(J + "registry.py", "return len(fields_a & fields_b) / len(fields_union) >= self.percent_fields",
       "return self.percent_fields <= len(fields_a & fields_b) / len(fields_union)")])
twin("percent_empty_union_by_len", "the empty union is recognised by its length",
     [(J + "registry.py", "        if not fields_union:\n", "        if len(fields_union) == 0:\n")])
twin("threshold_operands_swapped", "p <= ratio",
     [(J + "registry.py", "return len(fields_a & fields_b) >= self.number_fields",
       "return self.number_fields <= len(fields_a & fields_b)")])
twin("snapshot_list_not_tuple", "list() snapshot instead of tuple()",
     [(J + "registry.py", "for ptr in tuple(model.pointers):", "for ptr in list(model.pointers):"),
      (J + "registry.py", "for ptr in tuple(model.child_pointers):", "for ptr in list(model.child_pointers):")])
twin("merge_eq_operands_swapped", "equality operands swapped in merge_field_sets",
     [(J + "generator.py", "if field_original == field or field_original.type == field:",
       "if field == field_original or field == field_original.type:")])
twin("literal_repr_escaper", "repr() is an exact escaper too (quote style differs, meaning does not)",
     [(J + "dynamic_typing/complex.py", "json.dumps(s, ensure_ascii=False)", "repr(s)")])
twin("alias_repr_escaper", "repr() for the pydantic alias",
     [(J + "models/pydantic.py", "json.dumps(name, ensure_ascii=False)", "repr(name)")])
twin("memo_key_func_object", "memo key holds the function object instead of its name",
     [(J + "utils.py", "key = (func.__name__, *args)", "key = (func, *args)")])
twin("group_order_by_registry_filter", "order a merge group by filtering the registry instead of sorting with a key",
     [(J + "registry.py", "model_meta = self._merge(generator, *sorted(group, key=lambda model: order[model.index]))",
       "model_meta = self._merge(generator, *[m for m in list(self.models) if m in group])")])
twin("imports_sorted_items", "sorted(items()) instead of sorted(generator, key=itemgetter(0))",
     [(J + "dynamic_typing/typing.py", '''    class_imports_map = dict(sorted(
        ((module, sorted(classes)) for module, classes in class_imports_map.items()),
        key=operator.itemgetter(0)
    ))''', '''    class_imports_map = {module: sorted(classes) for module, classes in sorted(class_imports_map.items(), key=operator.itemgetter(0))}''')])
twin("attrs_elif_reordered", "dict branch tested before list branch in attrs field_data",
     [(J + "models/attr.py", '''            if isinstance(meta.type, DList):
                body_kwargs["factory"] = "list"
            elif isinstance(meta.type, DDict):
                body_kwargs["factory"] = "dict"
''', '''            if isinstance(meta.type, DDict):
                body_kwargs["factory"] = "dict"
            elif isinstance(meta.type, DList):
                body_kwargs["factory"] = "list"
''')])
twin("samples_appended_in_loop", "per-sample append loop instead of extend",
     [(J + "cli.py", "                models_dict[model_name].extend(iterator)",
       "                for sample in iterator:\n                    models_dict[model_name].append(sample)")])
twin("output_local_renamed", "the generated text is bound to another local name",
     [(J + "cli.py", "        output = self.version_string + generate_code(", "        text = self.version_string + generate_code("),
      (J + "cli.py", "                f.write(output)", "                f.write(text)"),
      (J + "cli.py", '            output.encode("utf-8")\n', '            text.encode("utf-8")\n'),
      (J + "cli.py", "            return output\n", "            return text\n")])
twin("exit_returns_false", "__exit__ returns False explicitly",
     [(J + "dynamic_typing/models_meta.py", "            self.data.context = self._old\n",
       "            self.data.context = self._old\n            return False\n")])
twin("replaces_purge_membership", "pair membership test instead of two identity tests",
     [(J + "dynamic_typing/string_serializable.py", '''        for base, replace in list(self.replaces):
            if replace is cls or base is cls:
                self.replaces.remove((base, replace))''', '''        for pair in list(self.replaces):
            if cls in pair:
                self.replaces.remove(pair)''')])
twin("sort_fields_structure", "sort_fields with an early continue for optionals",
     [(J + "models/structure.py", '''        if isinstance(meta, DOptional):
            optional.append(key)
        elif unicode_fix and''', '''        if isinstance(meta, DOptional):
            optional.append(key)
            continue
        if unicode_fix and''')])
twin("preamble_fstring_result", "generate_code builds its result with an f-string",
     [(J + "models/base.py", '''    return imports_str + objects_delimiter.join(classes) + "\\n"''',
       '''    return f"{imports_str}{objects_delimiter.join(classes)}\\n"''')])
twin("path_writer_chain_reordered", "the class dispatch chain of the path writer is reordered",
     [(J + "models/string_converters.py", '''                if cls is DOptional:
                    token = 'O'
                elif cls is DList:
                    token = 'L'
                elif cls is DDict:
                    token = 'D'
''', '''                if cls is DList:
                    token = 'L'
                elif cls is DDict:
                    token = 'D'
                elif cls is DOptional:
                    token = 'O'
''')])
twin("none_check_first", "null test moved to the front of _detect_type",
     [(J + "generator.py", '''        t = type(value)
        if t in _static_types:
            return t
''', '''        t = type(value)
        if value is None:
            return Null
        if t in _static_types:
            return t
''')])
twin("singleton_test_swapped", "1 == len(u.types)",
     [(J + "generator.py", '''            if len(meta_type.types) == 1:
                    meta_type = meta_type.types[0]''', '''            if len(meta_type.types) == 1:
                    meta_type = meta_type.types[0]''')])
twin("parse_args_reordered", "independent assignments in parse_args reordered",
     [(J + "cli.py", '''        self.output_file = namespace.output
        self.enable_datetime = namespace.datetime
''', '''        self.enable_datetime = namespace.datetime
        self.output_file = namespace.output
''')])
twin("header_replace_single_quotes", "the closing-quote run is replaced by other quote-free text",
     [(J + "cli.py", """.replace('\"\"\"', "'''")""", """.replace('\"\"\"', "<3q>")""")])
twin("dup_counter_rewritten", "duplicate counter with dict.get",
     [(J + "registry.py", '''        counter = defaultdict(int)
        for model in self.models:
            counter[model.name or model.index] += 1''', '''        counter = defaultdict(int)
        for model in self.models:
            counter[model.name or model.index] = counter[model.name or model.index] + 1''')])
twin("regex_fullmatch_form", "non-capturing group kept, anchors \\\\A ... \\\\Z",
     [(J + "cli.py", '''re.compile(rf"^(?:{r})\\Z")''', '''re.compile(rf"\\A(?:{r})\\Z")''')])

sys.path.insert(0, HERE)
from twins_extra import EXTRA  # noqa: E402
from twins_round3 import ROUND3  # noqa: E402
from twins_round4 import ROUND4  # noqa: E402
from twins_round5 import ROUND5  # noqa: E402
from twins_round6 import ROUND6  # noqa: E402
for _n, _w, _e in EXTRA + ROUND3 + ROUND4 + ROUND5 + ROUND6:
    twin(_n, _w, _e)


def main():
    tmp = tempfile.mkdtemp(prefix="twins_")
    made = 0
    try:
        subprocess.check_call(["git", "-C", "/repo", "worktree", "add", "-q", "--detach", os.path.join(tmp, "wt"), "HEAD"])
        wt = os.path.join(tmp, "wt")
        for name, why, edits in TWINS:
            subprocess.check_call(["git", "checkout", "-q", "--", "."], cwd=wt)
            ok = True
            for rel, old, new in edits:
                p = os.path.join(wt, rel)
                s = open(p).read()
                if s.count(old) != 1:
                    print(f"SKIP {name}: anchor text occurs {s.count(old)} times in {rel}")
                    ok = False
                    break
                if old == new:
                    ok = False
                    break
                open(p, "w").write(s.replace(old, new))
            if not ok:
                continue
            r = subprocess.run([sys.executable, "-m", "compileall", "-q", "json_to_models"], cwd=wt, capture_output=True)
            if r.returncode != 0:
                print(f"SKIP {name}: does not compile")
                continue
            d = subprocess.check_output(["git", "diff", "--", "json_to_models"], cwd=wt, text=True)
            open(os.path.join(TW, name + ".diff"), "w").write(d)
            json.dump({"name": name, "why_behaviour_is_preserved": why}, open(os.path.join(TW, name + ".json"), "w"), indent=1)
            made += 1
    finally:
        subprocess.call(["git", "-C", "/repo", "worktree", "remove", "--force", os.path.join(tmp, "wt")])
        shutil.rmtree(tmp, ignore_errors=True)
    print(made, "twins written")


if __name__ == "__main__":
    main()
