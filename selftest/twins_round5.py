"""Silent twins for the rules added against the fifth batch of seeded changes; see make_twins.py."""
J = "json_to_models/"

ROUND5 = [
    ("render_lock_with", "rendering is serialised by a module-level lock held through `with`", [
        (J + "models/base.py", "    root, mapping = structure\n    with AbsoluteModelRef.inject(mapping):\n        imports, classes = _generate_code(root, class_generator, class_generator_kwargs or {})\n        imports_str = \"\"\n",
         "    root, mapping = structure\n    with _render_lock, AbsoluteModelRef.inject(mapping):\n        imports, classes = _generate_code(root, class_generator, class_generator_kwargs or {})\n        imports_str = \"\"\n"),
        (J + "models/base.py", "def template(pattern: str, indent: str = INDENT) -> Template:", "_render_lock = threading.RLock()\n\n\ndef template(pattern: str, indent: str = INDENT) -> Template:"),
        (J + "models/base.py", "import re\n", "import re\nimport threading\n"),
    ]),
    ("paths_bound_to_local", "the matched paths are bound to a local before the loop", [
        (J + "cli.py", "            for real_path in process_path(path_raw):\n", "            matched = process_path(path_raw)\n            for real_path in matched:\n"),
    ]),
    ("kwargs_item_checked_then_partitioned", "a NAME=VALUE item is checked for `=` and then partitioned", [
        (J + "cli.py", "                name, value = item.split(\"=\", 1)\n",
         "                if \"=\" not in item:\n                    raise ValueError(f\"not enough values to unpack: {item}\")\n"
         "                name, _, value = item.partition(\"=\")\n"),
    ]),
    ("detect_try_else", "the detector returns from the else clause of the try", [
        (J + "generator.py",
         "                try:\n                    value = t.to_internal_value(value)\n                except (ValueError, OverflowError):\n"
         "                    # OverflowError: dateutil raises it for huge numbers (\"Jan 99999999999\")\n                    continue\n                return t\n",
         "                try:\n                    t.to_internal_value(value)\n                except (ValueError, OverflowError):\n"
         "                    # OverflowError: dateutil raises it for huge numbers (\"Jan 99999999999\")\n                    pass\n                else:\n                    return t\n"),
    ]),
    ("registry_remove_all", "remove() takes out every occurrence of the class", [
        (J + "dynamic_typing/string_serializable.py", "        self.types.remove(cls)\n",
         "        self.types.remove(cls)\n        while cls in self.types:\n            self.types.remove(cls)\n"),
    ]),
    ("label_filter_loop", "the identifier-character filter of prepare_label is written as a loop", [
        (J + "models/base.py", "        s = \"\".join(c for c in s if (\"_\" + c).isidentifier())\n",
         "        kept = [c for c in s if (\"_\" + c).isidentifier()]\n        s = \"\".join(kept)\n"),
    ]),
    ("nested_reserved_first", "the classes nested in the body are reserved before the children of the model", [
        (J + "models/base.py",
         "        for ptr in gen.model.child_pointers:\n            gen.reserve_field_name(ptr.type.name)\n        for nested_gen, _ in nested_generators:\n"
         "            # (a class can also be nested here without being a child: one that several children share)\n            gen.reserve_field_name(nested_gen.model.name)\n",
         "        for nested_gen, _ in nested_generators:\n"
         "            # (a class can also be nested here without being a child: one that several children share)\n            gen.reserve_field_name(nested_gen.model.name)\n"
         "        for ptr in gen.model.child_pointers:\n            gen.reserve_field_name(ptr.type.name)\n"),
    ]),
]
