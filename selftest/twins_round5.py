"""Silent twins for the rules added against the fifth batch of seeded changes; see make_twins.py."""
J = "json_to_models/"

ROUND5 = [
    ("render_lock_with", "rendering is serialised by a module-level lock held through `with`", [
        (J + "models/base.py", "    root, mapping = structure\n    with AbsoluteModelRef.inject(mapping):\n        imports, classes = _generate_code(root, class_generator, class_generator_kwargs or {})\n        imports_str = \"\"\n",
         "    root, mapping = structure\n    with _render_lock, AbsoluteModelRef.inject(mapping):\n        imports, classes = _generate_code(root, class_generator, class_generator_kwargs or {})\n        imports_str = \"\"\n"),
        (J + "models/base.py", "def template(pattern: str, indent: str = INDENT) -> Template:", "_render_lock = threading.RLock()\n\n\ndef template(pattern: str, indent: str = INDENT) -> Template:"),
        (J + "models/base.py", "import re\n", "import re\nimport threading\n"),
    ]),
    ("paths_bound_to_local", "the matched paths are bound to a local before the loop", [
        (J + "cli.py", "            for real_path in process_path(path_raw):\n", "            found_paths = process_path(path_raw)\n            for real_path in found_paths:\n"),
    ]),
    ("kwargs_item_checked_then_partitioned", "a NAME=VALUE item is checked for `=` and then partitioned", [
        (J + "cli.py", "                name, value = item.split(\"=\", 1)\n",
         "                if \"=\" not in item:\n                    raise ValueError(f\"not enough values to unpack: {item}\")\n"
         "                name, _, value = item.partition(\"=\")\n"),
    ]),
    ("detect_try_else", "the detector returns from the else clause of the try", [
        (J + "generator.py",
         "                try:\n                    value = t.to_internal_value(value)\n                except (ValueError, OverflowError):\n"
         "                    # OverflowError: dateutil raises it for huge numbers (\"Jan 99999999999\")\n                    continue\n                return t\n",
         "                try:\n                    t.to_internal_value(value)\n                except (ValueError, OverflowError):\n"
         "                    # OverflowError: dateutil raises it for huge numbers (\"Jan 99999999999\")\n                    pass\n                else:\n                    return t\n"),
    ]),
    ("registry_remove_all", "remove() takes out every occurrence of the class", [
        (J + "dynamic_typing/string_serializable.py", "        self.types.remove(cls)\n",
         "        self.types.remove(cls)\n        while cls in self.types:\n            self.types.remove(cls)\n"),
    ]),
    ("label_filter_loop", "the identifier-character filter of prepare_label is written as a loop", [
        (J + "models/base.py", "        s = \"\".join(c for c in s if (\"_\" + c).isidentifier())\n",
         "        kept = [c for c in s if (\"_\" + c).isidentifier()]\n        s = \"\".join(kept)\n"),
    ]),
    ("descendants_recursive", "the models below a class are collected by recursion instead of a work list", [
        (J + "models/base.py",
         "    found: Dict[str, ModelMeta] = {}\n    queue = [model]\n    while queue:\n        for ptr in queue.pop().child_pointers:\n"
         "            child = ptr.type\n            if child.index != model.index and child.index not in found:\n"
         "                found[child.index] = child\n                queue.append(child)\n    return sorted(found.values(), key=lambda m: m.index)\n",
         "    found: Dict[str, ModelMeta] = {}\n\n    def visit(current: ModelMeta):\n        for ptr in current.child_pointers:\n"
         "            child = ptr.type\n            if child.index != model.index and child.index not in found:\n"
         "                found[child.index] = child\n                visit(child)\n\n    visit(model)\n    return sorted(found.values(), key=lambda m: m.index)\n"),
    ]),
    ("int_fold_single_test", "every int is dropped next to float by a comprehension under one test", [
        (J + "generator.py", "        if float in other_types:\n            # int can be listed more than once (directly and taken out of an Optional member)\n"
                              "            while int in other_types:\n                other_types.remove(int)\n",
         "        if float in other_types and int in other_types:\n            while int in other_types:\n                other_types.remove(int)\n"),
    ]),
    ("literals_united_by_helper", "the literals of a union are united by a helper method", [
        (J + "generator.py", "            literal = self.optimize_type(DUnion(*literal_types).types[0])\n",
         "            literal = self._unite_literals(literal_types)\n"),
        (J + "generator.py", "    def _optimize_union(self, t: DUnion):\n",
         "    def _unite_literals(self, literal_types):\n        united = DUnion(*literal_types).types[0]\n        return self.optimize_type(united)\n\n"
         "    def _optimize_union(self, t: DUnion):\n"),
    ]),
    ("union_members_iterative", "the members of a union are flattened with an explicit stack", [
        (J + "generator.py", "        for item in types:\n            if isinstance(item, DOptional):\n                yield Null\n                item = item.type\n"
                              "            if isinstance(item, DUnion):\n                yield from cls._union_members(item.types)\n            else:\n                yield item\n",
         "        stack = list(reversed(list(types)))\n        while stack:\n            item = stack.pop()\n            if isinstance(item, DOptional):\n"
         "                yield Null\n                item = item.type\n            if isinstance(item, DUnion):\n                stack.extend(reversed(item.types))\n"
         "            else:\n                yield item\n"),
    ]),
    ("null_removed_by_filter", "null members are taken out of the candidates with a comprehension", [
        (J + "generator.py", "                while Null in types:\n                    types.remove(Null)\n",
         "                types = [x for x in types if x is not Null]\n"),
    ]),
]
