"""Silent twins for the rules added against the third batch of seeded changes; see make_twins.py."""
J = "json_to_models/"

ROUND3 = [
    ("sqlmodel_kwargs_update", "the sqlmodel override extends the inherited arguments with update()", [
        (J + "models/sqlmodel.py", "            kwargs['primary_key'] = True\n", "            kwargs.update(primary_key=True)\n"),
    ]),
    ("sqlmodel_kwargs_direct_return", "the sqlmodel override returns the inherited arguments directly when nothing is added", [
        (J + "models/sqlmodel.py",
         "        kwargs = super()._get_field_kwargs(name, meta, optional, data)\n        # Detect primary key\n"
         "        if data['name'] in ('id', 'pk') and meta is int:\n            kwargs['primary_key'] = True\n        return kwargs\n",
         "        if not (data['name'] in ('id', 'pk') and meta is int):\n"
         "            return super()._get_field_kwargs(name, meta, optional, data)\n"
         "        kwargs = super()._get_field_kwargs(name, meta, optional, data)\n"
         "        kwargs['primary_key'] = True\n        return kwargs\n"),
    ]),
    ("rename_flag_positional", "the generated-name flag is passed positionally", [
        (J + "models/base.py", "self.model.set_raw_name(self.convert_class_name(self.model.name), generated=self.model.is_name_generated)",
         "self.model.set_raw_name(self.convert_class_name(self.model.name), self.model.is_name_generated)"),
    ]),
    ("pydantic_kwargs_merged", "the pydantic constructor forwards a merged kwargs dict", [
        (J + "models/pydantic.py", "        kwargs['post_init_converters'] = False\n        super().__init__(model, **kwargs)\n",
         "        super().__init__(model, **{**kwargs, 'post_init_converters': False})\n"),
    ]),
    ("injection_parent_local", "compose_models binds the parent model to a local before storing it", [
        (J + "models/structure.py", "                path_injections[struct[\"model\"]] = parent[\"model\"]\n",
         "                parent_model = parent[\"model\"]\n                path_injections[struct[\"model\"]] = parent_model\n"),
    ]),
    ("regex_percent_format", "the anchored pattern is built with % formatting", [
        (J + "cli.py", "re.compile(rf\"^(?:{r})\\Z\")", "re.compile(r\"^(?:%s)\\Z\" % r)"),
    ]),
    ("process_path_index_split", "process_path cuts the component list at the first wildcard by index", [
        (J + "cli.py",
         "    clean_path = list(itertools.takewhile(\n        lambda part: \"*\" not in part and \"?\" not in part,\n        split_path\n    ))\n"
         "    pattern_path = split_path[len(clean_path):]\n",
         "    cut = next((i for i, part in enumerate(split_path) if \"*\" in part or \"?\" in part), len(split_path))\n"
         "    clean_path = split_path[:cut]\n    pattern_path = split_path[cut:]\n"),
    ]),
    ("missing_input_raises_early", "a missing non-pattern path raises before the loader is tried", [
        (J + "cli.py", "    path = Path(clean_path)\n    if pattern_path:\n        return path.glob(pattern_path)\n    else:\n        return path,\n",
         "    path = Path(clean_path)\n    if pattern_path:\n        return path.glob(pattern_path)\n    else:\n"
         "        if not path.exists():\n            raise FileNotFoundError(str(path))\n        return path,\n"),
    ]),
    ("float_parser_two_steps", "FloatString's parser binds the value before returning it", [
        (J + "dynamic_typing/string_serializable.py",
         "class FloatString(StringSerializable, float):\n    actual_type = float\n\n    @classmethod\n"
         "    def to_internal_value(cls, value: str) -> 'FloatString':\n        return cls(value)\n",
         "class FloatString(StringSerializable, float):\n    actual_type = float\n\n    @classmethod\n"
         "    def to_internal_value(cls, value: str) -> 'FloatString':\n        parsed = cls(value)\n        return parsed\n"),
    ]),
    ("date_render_through_base", "IsoDateString renders through date.isoformat", [
        (J + "dynamic_typing/string_datetime.py",
         "    def to_representation(self):\n        return self.isoformat()\n\n    def replace(self, *args, **kwargs) -> 'IsoDateString':",
         "    def to_representation(self):\n        return date.isoformat(self)\n\n    def replace(self, *args, **kwargs) -> 'IsoDateString':"),
    ]),
    ("merge_policy_reassigned", "set_args rebinds the comparator list instead of clearing it", [
        (J + "cli.py", "        self.merge_policy.clear()\n", "        self.merge_policy = []\n"),
    ]),
    ("dict_keys_fields_tuple", "dict_keys_fields is stored as a tuple in one conditional expression", [
        (J + "cli.py", "        self.dict_keys_fields = dict_keys_fields or ()\n",
         "        self.dict_keys_fields = tuple(dict_keys_fields) if dict_keys_fields else ()\n"),
    ]),
    ("hash_token_percent_d", "the hash token is rendered with %d", [
        (J + "dynamic_typing/base.py", "        return str(hash(tuple((k, get_hash_string(v)) for k, v in t.items())))",
         "        return \"%d\" % hash(tuple((k, get_hash_string(v)) for k, v in t.items()))"),
    ]),
    ("similar_pairs_helper", "the pairwise comparison of merge_models is extracted into a helper method", [
        (J + "registry.py",
         "        for model_a, model_b in combinations(self.models, 2):\n            if self._models_cmp_fn(model_a, model_b):\n"
         "                models2merge[model_a].add(model_b)\n                models2merge[model_b].add(model_a)\n",
         "        for model_a, model_b in self._similar_pairs():\n"
         "            models2merge[model_a].add(model_b)\n            models2merge[model_b].add(model_a)\n"),
        (J + "registry.py", "    def merge_models(self, generator, strict=False)",
         "    def _similar_pairs(self):\n        return [(a, b) for a, b in combinations(self.models, 2) if self._models_cmp_fn(a, b)]\n\n"
         "    def merge_models(self, generator, strict=False)"),
    ]),
    ("single_member_shortcut_simplified", "a one-member union is replaced by its simplified member up front", [
        (J + "generator.py", "        elif isinstance(meta, DUnion):\n            return self._optimize_union(meta)\n",
         "        elif isinstance(meta, DUnion):\n            if len(meta) == 1:\n                return self.optimize_type(meta.types[0])\n"
         "            return self._optimize_union(meta)\n"),
    ]),
    ("dict_conversion_loop", "the D step builds the new dict in a loop", [
        (J + "models/string_converters.py",
         "        return {\n            key: _process_string_field_value(path, item, current_type=t, optional=optional)\n"
         "            for key, item in value.items()\n        }\n",
         "        converted = {}\n        for key, item in value.items():\n"
         "            converted[key] = _process_string_field_value(path, item, current_type=t, optional=optional)\n        return converted\n"),
    ]),
    ("field_paths_listed", "convert_strings materialises the field paths", [
        (J + "models/string_converters.py", "    method = {\n        ClassType.Attrs: '__attrs_post_init__',",
         "    str_field_paths = list(map(str, str_field_paths))\n    method = {\n        ClassType.Attrs: '__attrs_post_init__',"),
    ]),
    ("render_loop_renamed", "the renderer's loop variables are renamed", [
        (J + "models/base.py",
         "        nested_imports, nested_classes = _render_generators(nested_generators)\n        imports.extend(nested_imports)\n"
         "        cls_imports, cls_string = gen.generate(nested_classes)\n",
         "        inner_imports, inner_texts = _render_generators(nested_generators)\n        imports.extend(inner_imports)\n"
         "        cls_imports, cls_string = gen.generate(inner_texts)\n"),
    ]),
    ("header_regex_sub_bare", "the triple quotes of the echoed command are replaced with re.sub", [
        (J + "cli.py", "        command = \" \".join(sys.argv).replace('\"\"\"', \"'''\")\n",
         "        command = re.sub('\"\"\"', \"'''\", \" \".join(sys.argv))\n"),
    ]),
    ("int_removed_via_alias", "int is dropped from the routed candidates through an alias", [
        (J + "generator.py", "        if float in other_types:\n            # int can be listed more than once (directly and taken out of an Optional member)\n"
                              "            while int in other_types:\n                other_types.remove(int)\n",
         "        cands = other_types\n        if float in cands:\n            while int in cands:\n                cands.remove(int)\n"),
    ]),
    ("non_string_value_rejected_first", "the string branch rejects non-strings before the parsers run", [
        (J + "generator.py", "        else:\n            for t in self.str_types_registry:\n",
         "        else:\n            if not isinstance(value, str):\n                raise TypeError(f'unsupported value {value!r}')\n"
         "            for t in self.str_types_registry:\n"),
    ]),
]

ROUND3 += [
    ("private_registry_positional", "the private registry is passed positionally to the generator", [
        (J + "cli.py", "            str_types_registry=self.str_types_registry,\n            dict_keys_regex=self.dict_keys_regex,",
         "            self.str_types_registry,\n            dict_keys_regex=self.dict_keys_regex,"),
    ]),
    ("private_registry_deepcopy", "the private registry is a deep copy of the default one", [
        (J + "cli.py", "        self.str_types_registry = StringSerializableRegistry(*registry.types)\n        self.str_types_registry.replaces = set(registry.replaces)\n",
         "        self.str_types_registry = copy.deepcopy(registry)\n"),
        (J + "cli.py", "import argparse\n", "import argparse\nimport copy\n"),
    ]),
    ("yaml_loader_local_instance", "the yaml loader builds its parser inside FileLoaders.yaml", [
        (J + "cli.py", "        with path.open() as fp:\n            return yaml_load(fp)\n",
         "        with path.open() as fp:\n            loader = yaml_load\n            return loader(fp)\n"),
    ]),
]

ROUND3 += [
    ("field_label_used_set", "the labels already handed out are kept in a set", [
        (J + "models/base.py", "        while self._field_labels.setdefault(label, name) != name:\n            label += \"_\"\n        return label\n",
         "        while label in self._field_labels:\n            label += \"_\"\n        self._field_labels[label] = name\n        return label\n"),
    ]),
    ("class_dedup_sort_in_place", "the models are sorted in place before duplicates are renamed", [
        (J + "models/base.py",
         "    for model in sorted(models, key=lambda m: (len(str(m.index)), str(m.index))):\n",
         "    models.sort(key=lambda m: (len(str(m.index)), str(m.index)))\n    for model in models:\n"),
    ]),
]

ROUND3 += [
    ("label_nfkc_negated_test", "the normalisation branch is written with the negated test first", [
        (J + "models/base.py",
         "    if convert_unicode:\n        s = unidecode(s)\n    else:\n"
         "        # Python normalizes identifiers (NFKC) but not the strings that name them (aliases, converter paths)\n"
         "        s = unicodedata.normalize(\"NFKC\", s)\n",
         "    if not convert_unicode:\n        s = unicodedata.normalize(\"NFKC\", s)\n    else:\n        s = unidecode(s)\n"),
    ]),
    ("label_underscore_startswith", "the underscore step of the label loop tests startswith", [
        (J + "models/base.py", "        if s[0] == \"_\":\n            s = s[1:] + \"_\"\n",
         "        if s.startswith(\"_\"):\n            s = s[1:] + \"_\"\n"),
    ]),
    ("label_loop_guard_lstrip", "the label loop is guarded with lstrip", [
        (J + "models/base.py", "    while s.strip(\"_\") and not (s[0] != \"_\" and s[0].isidentifier()):\n",
         "    while s.lstrip(\"_\") and not (s[0] != \"_\" and s[0].isidentifier()):\n"),
    ]),
]

ROUND3 += [
    ("imports_setdefault", "compile_imports unites the names through setdefault", [
        (J + "dynamic_typing/typing.py",
         "            classes_set = class_imports_map.get(module, set())\n            if isinstance(classes, str):\n"
         "                classes_set.add(classes)\n            else:\n                classes_set.update(classes)\n"
         "            class_imports_map[module] = classes_set\n",
         "            classes_set = class_imports_map.setdefault(module, set())\n            if isinstance(classes, str):\n"
         "                classes_set.add(classes)\n            else:\n                classes_set.update(classes)\n"),
    ]),
    ("sort_kwargs_direct_return", "sort_kwargs returns the merged mapping directly", [
        (J + "models/base.py", "    sorted_dict = {**sorted_dict_1, **kwargs, **sorted_dict_2}\n    return sorted_dict\n",
         "    return {**sorted_dict_1, **kwargs, **sorted_dict_2}\n"),
    ]),
    ("convert_args_items", "the wrapper converts keyword arguments over kwargs.items()", [
        (J + "utils.py",
         "            name: kwargs_converters[name](kwargs[name]) if kwargs_converters.get(name, None) else kwargs[name]\n"
         "            for name in kwargs.keys()\n",
         "            name: kwargs_converters[name](value) if kwargs_converters.get(name, None) else value\n"
         "            for name, value in kwargs.items()\n"),
    ]),
]
