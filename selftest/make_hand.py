#!/venv/bin/python
"""Positive controls written by hand: one small edit per rule that no seeded change of the sub-agents exercises. They are NOT
confirmed regressions (no demonstration, the suite is not run on them): each only has to compile and to make the named rule of
the named property report something.  `selftest/run.py` runs them with the seeded changes (kind "hand")."""
import json, os, shutil, subprocess, sys, tempfile

HERE = os.path.dirname(os.path.abspath(__file__))
OUT = os.path.join(HERE, "hand")
J = "json_to_models/"
HAND = [
    ("ctx_entered_by_hand", "C14", "CTX-2", [(J + "models/base.py",
        "    with AbsoluteModelRef.inject(mapping):\n        imports, classes = _generate_code(root, class_generator, class_generator_kwargs or {})\n        imports_str = \"\"\n",
        "    context = AbsoluteModelRef.inject(mapping)\n    context.__enter__()\n    imports, classes = _generate_code(root, class_generator, class_generator_kwargs or {})\n    context.__exit__(None, None, None)\n    imports_str = \"\"\n")]),
    ("render_outside_context", "C14", "CTX-3", [(J + "models/base.py",
        "    with AbsoluteModelRef.inject(mapping):\n        imports, classes = _generate_code(root, class_generator, class_generator_kwargs or {})\n        imports_str = \"\"\n",
        "    with AbsoluteModelRef.inject(mapping):\n        imports_str = \"\"\n    imports, classes = _generate_code(root, class_generator, class_generator_kwargs or {})\n")]),
    ("flat_layout_nests", "C12", "LAY-3", [(J + "models/structure.py",
        "            positions.update_position(key, pos + 1)\n            root_models.insert(pos, struct)\n",
        "            positions.update_position(key, pos + 1)\n            if len(parents) == 1:\n                structure_hash_table[min(parents)][\"nested\"].append(struct)\n            else:\n                root_models.insert(pos, struct)\n")]),
    ("option_never_read", "C16", "OPTFLOW-1", [(J + "cli.py",
        "        parser.add_argument(\n            \"-l\", \"--list\",",
        "        parser.add_argument(\"--strict\", action=\"store_true\", help=\"fail on unknown keys\")\n        parser.add_argument(\n            \"-l\", \"--list\",")]),
    ("live_pointer_iteration", "C05", "REG-3", [(J + "registry.py", "            for ptr in tuple(model.pointers):\n", "            for ptr in model.pointers:\n")]),
    ("merge_reported_sometimes", "C05", "REG-4", [(J + "registry.py",
        "            replaces.append((model_meta, group))\n", "            if len(group) > 2:\n                replaces.append((model_meta, group))\n")]),
    ("dict_renders_as_list", "C04", "TBL-1", [(J + "dynamic_typing/complex.py",
        "class DDict(SingleType):\n    _typing_cls = Dict\n", "class DDict(SingleType):\n    _typing_cls = List\n")]),
    ("imports_overwritten_per_module", "C03", "IMP-5", [(J + "dynamic_typing/typing.py",
        "            classes_set = class_imports_map.get(module, set())\n", "            classes_set = set()\n")]),
    ("package_imports_not_rendered", "C03", "IMP-5", [(J + "dynamic_typing/typing.py",
        "    return \"\\n\".join(filter(None, (package_imports, class_imports)))", "    return class_imports")]),
    ("kwargs_remainder_dropped", "C04", "KW-1", [(J + "models/base.py",
        "    sorted_dict = {**sorted_dict_1, **kwargs, **sorted_dict_2}\n", "    sorted_dict = {**sorted_dict_1, **sorted_dict_2}\n")]),
    ("wrapper_drops_arguments", "C16", "ARGFWD-1", [
        (J + "utils.py", "            for name in kwargs.keys()\n", "            for name in kwargs.keys() if name in kwargs_converters\n"),
        (J + "utils.py", "        return fn(*converted, *remain, **kwargs_converted)\n", "        return fn(*converted, **kwargs_converted)\n")]),
    ("replace_falls_through", "C08", "IFACE-1", [
        (J + "dynamic_typing/complex.py", "            # Using property setter here\n            self.types = types\n",
         "            # Using property setter here\n            self.types = types\n            return self\n"),
        (J + "dynamic_typing/complex.py",
         "            raise ValueError(f\"Unsupported arguments: t={t} index={index} kwargs={kwargs}\")\n        return self\n",
         "            raise ValueError(f\"Unsupported arguments: t={t} index={index} kwargs={kwargs}\")\n")]),
]


def main():
    tmp = tempfile.mkdtemp(prefix="hand_")
    wt = os.path.join(tmp, "wt")
    subprocess.check_call(["git", "-C", "/repo", "worktree", "add", "-q", "--detach", wt, "HEAD"])
    os.makedirs(OUT, exist_ok=True)
    for f in os.listdir(OUT):
        os.remove(os.path.join(OUT, f))
    made = 0
    try:
        for name, prop, rule, edits in HAND:
            subprocess.check_call(["git", "checkout", "-q", "--", "."], cwd=wt)
            ok = True
            for rel, old, new in edits:
                p = os.path.join(wt, rel)
                s = open(p).read()
                if s.count(old) != 1:
                    print(f"SKIP {name}: anchor text occurs {s.count(old)} times in {rel}")
                    ok = False
                    break
                open(p, "w").write(s.replace(old, new))
            if not ok:
                continue
            if subprocess.run([sys.executable, "-m", "compileall", "-q", "json_to_models"], cwd=wt, capture_output=True).returncode:
                print(f"SKIP {name}: does not compile")
                continue
            d = subprocess.check_output(["git", "diff", "--", "json_to_models"], cwd=wt, text=True)
            open(os.path.join(OUT, name + ".diff"), "w").write(d)
            json.dump({"name": name, "property": prop, "rule": rule}, open(os.path.join(OUT, name + ".json"), "w"), indent=1)
            made += 1
    finally:
        subprocess.call(["git", "-C", "/repo", "worktree", "remove", "--force", wt])
        shutil.rmtree(tmp, ignore_errors=True)
    print(made, "hand-made positive controls written")


if __name__ == "__main__":
    main()
