"""More behaviour-preserving edits (helpers extracted, conditions inverted, names changed); see make_twins.py."""
J = "json_to_models/"

EXTRA = [
    ("label_start_helper", "the loop that makes a label start with a letter is extracted into a helper", [
        (J + "models/base.py",
         "    while s.strip(\"_\") and not (s[0] != \"_\" and s[0].isidentifier()):\n        if s[0] == \"_\":\n            s = s[1:] + \"_\"\n"
         "        elif s[0].isdecimal():\n            s = ones[unicodedata.decimal(s[0])] + \"_\" + s[1:]\n"
         "        else:\n            s = s[1:]\n",
         "    s = _start_with_letter(s)\n"),
        (J + "models/base.py",
         "def prepare_label(s: str, convert_unicode: bool, to_snake_case: bool) -> str:",
         "def _start_with_letter(s: str) -> str:\n"
         "    while s.strip(\"_\") and not (s[0] != \"_\" and s[0].isidentifier()):\n        if s[0] == \"_\":\n            s = s[1:] + \"_\"\n"
         "        elif s[0].isdecimal():\n            s = ones[unicodedata.decimal(s[0])] + \"_\" + s[1:]\n"
         "        else:\n            s = s[1:]\n    return s\n\n\n"
         "def prepare_label(s: str, convert_unicode: bool, to_snake_case: bool) -> str:"),
    ]),
    ("limit_negated_form", "hard literal cap written as a negated <=", [
        (J + "dynamic_typing/complex.py", "len(literals) > self.MAX_LITERALS", "not (len(literals) <= self.MAX_LITERALS)"),
    ]),
    ("limit_early_str", "configured maximum tested the other way round with an early return", [
        (J + "dynamic_typing/complex.py",
         "            if limit is None or len(self.literals) < limit:\n"
         "                parts = ', '.join(\n"
         "                    json.dumps(s, ensure_ascii=False)\n"
         "                    for s in sorted(self.literals)\n"
         "                )\n"
         "                return [(Literal.__module__, 'Literal')], f\"Literal[{parts}]\"\n",
         "            if limit is not None and len(self.literals) >= limit:\n"
         "                return [], 'str'\n"
         "            parts = ', '.join(\n"
         "                json.dumps(s, ensure_ascii=False)\n"
         "                for s in sorted(self.literals)\n"
         "            )\n"
         "            return [(Literal.__module__, 'Literal')], f\"Literal[{parts}]\"\n"),
    ]),
    ("dup_threshold_ge2", "duplicate test written as >= 2", [
        (J + "registry.py", "if counter[model.name] > 1:", "if counter[model.name] >= 2:"),
    ]),
    ("stage_intermediate_names", "run() binds the metadata to another name", [
        (J + "cli.py",
         "            meta = generator.generate(*data)\n            registry.process_meta_data(meta, name)",
         "            fields = generator.generate(*data)\n            registry.process_meta_data(fields, name)"),
    ]),
    ("detect_loop_over_types_list", "the detector iterates the registry's type list directly", [
        (J + "generator.py", "            for t in self.str_types_registry:", "            for t in self.str_types_registry.types:"),
    ]),
    ("attrs_kwargs_update", "attrs default stored with dict.update", [
        (J + "models/attr.py", "                body_kwargs[\"default\"] = \"None\"", "                body_kwargs.update(default=\"None\")"),
    ]),
    ("collapse_len_of_union", "singleton test through __len__ of the union", [
        (J + "generator.py",
         "                    union = DUnion(*types)\n"
         "                    if len(union.types) == 1:\n"
         "                        return DList(*union.types)",
         "                    union = DUnion(*types)\n"
         "                    if len(union) == 1:\n"
         "                        return DList(*union.types)"),
    ]),
    ("merge_union_helper", "the union construction of merge_field_sets is extracted into a helper", [
        (J + "generator.py",
         "                        field = DUnion(\n"
         "                            *(field.types if isinstance(field, DUnion) else [field]),\n"
         "                            *(field_original.types if isinstance(field_original, DUnion) else [field_original])\n"
         "                        )\n"
         "                        if len(field) == 1:\n"
         "                            field = field.types[0]\n",
         "                        field = DUnion(*self._members(field), *self._members(field_original))\n"
         "                        if len(field) == 1:\n"
         "                            field = field.types[0]\n"),
        (J + "generator.py",
         "    def optimize_type(self, meta: MetaData, process_model_ptr=False) -> MetaData:",
         "    @staticmethod\n"
         "    def _members(t):\n"
         "        return t.types if isinstance(t, DUnion) else [t]\n\n"
         "    def optimize_type(self, meta: MetaData, process_model_ptr=False) -> MetaData:"),
    ]),
    ("context_bound_to_local", "the injected context is bound to a local before `with`", [
        (J + "models/base.py",
         "    with AbsoluteModelRef.inject(mapping):\n",
         "    injection = AbsoluteModelRef.inject(mapping)\n    with injection:\n"),
    ]),
    ("candidates_renamed", "the candidate list of _optimize_union is renamed", [
        (J + "generator.py", "        types = [self.optimize_type(t) for t in other_types]\n\n\n        if len(types) > 1:\n",
         "        cands = [self.optimize_type(t) for t in other_types]\n\n\n        if len(cands) > 1:\n"),
        (J + "generator.py", "            while Unknown in types:\n                types.remove(Unknown)\n",
         "            while Unknown in cands:\n                cands.remove(Unknown)\n"),
        (J + "generator.py", "            if Null in types:\n                optional = True\n                while Null in types:\n                    types.remove(Null)\n",
         "            if Null in cands:\n                optional = True\n                while Null in cands:\n                    cands.remove(Null)\n"),
        (J + "generator.py", "            if not types:\n                meta_type = Unknown\n            else:\n                meta_type = DUnion(*types)\n",
         "            if not cands:\n                meta_type = Unknown\n            else:\n                meta_type = DUnion(*cands)\n"),
        (J + "generator.py", "            meta_type = types[0]\n", "            meta_type = cands[0]\n"),
    ]),
    ("load_through_helper", "the loader is applied through a small helper method", [
        (J + "cli.py", "                iterator = iter_json_file(parser(real_path), lookup)",
         "                iterator = iter_json_file(self._load(parser, real_path), lookup)"),
        (J + "cli.py", "    def set_args(\n", "    @staticmethod\n    def _load(parser, path):\n        return parser(path)\n\n    def set_args(\n"),
    ]),
    ("detect_items_prelist", "list items are materialised before their types are detected", [
        (J + "generator.py", "                types = [self._detect_type(item) for item in value]\n                if len(types) > 1:\n                    union = DUnion(*types)\n                    if len(union.types) == 1:\n                        return DList(*union.types)",
         "                items = list(value)\n                types = [self._detect_type(item) for item in items]\n                if len(types) > 1:\n                    union = DUnion(*types)\n                    if len(union.types) == 1:\n                        return DList(*union.types)"),
    ]),
    ("preamble_store_conditional_expr", "the preamble is normalised in one conditional expression", [
        (J + "cli.py", "        if preamble:\n            preamble = preamble.strip()\n        self.preamble = preamble or None\n",
         "        self.preamble = (preamble.strip() or None) if preamble else None\n"),
    ]),
    ("lookup_dict_first", "iter_json_file tests for an object before a list", [
        (J + "cli.py", "    if isinstance(item, list):\n        yield from item\n    elif isinstance(item, dict):\n        yield item\n",
         "    if isinstance(item, dict):\n        yield item\n    elif isinstance(item, list):\n        yield from item\n"),
    ]),
    ("final_pass_over_values", "the final simplification pass iterates the registry mapping's values", [
        (J + "registry.py", "        for model_meta in self.models:\n            generator.optimize_type(model_meta)\n        return replaces",
         "        for model_meta in self._registry.values():\n            generator.optimize_type(model_meta)\n        return replaces"),
    ]),
    ("resolve_set_difference", "resolve() written as a set difference", [
        (J + "dynamic_typing/string_serializable.py",
         "        resolved: Set[T_StringSerializable] = set(types)\n        for t1, t2 in permutations(types, 2):\n            if (t1, t2) in self.replaces:\n                resolved.discard(t1)\n        return resolved\n",
         "        return types - {t1 for t1, t2 in permutations(types, 2) if (t1, t2) in self.replaces}\n"),
    ]),
    ("keycheck_with_all", "mapping keys checked with all()", [
        (J + "generator.py", "                for key in value:\n                    self._check_key(key, value)\n",
         "                if not all(isinstance(key, str) for key in value):\n                    raise TypeError(f'non-string keys in {value}')\n"),
    ]),
    ("write_encoded_bytes", "the text is encoded first and written in binary mode", [
        (J + "cli.py", "            output.encode(\"utf-8\")\n            with open(self.output_file, \"w\", encoding=\"utf-8\") as f:\n                f.write(output)\n",
         "            data = output.encode(\"utf-8\")\n            with open(self.output_file, \"wb\") as f:\n                f.write(data)\n"),
    ]),
    ("overflow_converted_in_parser", "dateutil's OverflowError is converted to ValueError where it is raised", [
        (J + "generator.py", "                except (ValueError, OverflowError):\n                    # OverflowError: dateutil raises it for huge numbers (\"Jan 99999999999\")\n                    continue\n",
         "                except ValueError:\n                    continue\n"),
        (J + "dynamic_typing/string_datetime.py",
         "    d1 = dateutil.parser.parse(s, default=_check_values_date[0])\n    d2 = dateutil.parser.parse(s, default=_check_values_date[1])\n",
         "    try:\n        d1 = dateutil.parser.parse(s, default=_check_values_date[0])\n        d2 = dateutil.parser.parse(s, default=_check_values_date[1])\n    except OverflowError as e:\n        raise ValueError(str(e))\n"),
        (J + "dynamic_typing/string_datetime.py",
         "    d1 = dateutil.parser.parse(s, default=_check_values_time[0])\n    d2 = dateutil.parser.parse(s, default=_check_values_time[1])\n",
         "    try:\n        d1 = dateutil.parser.parse(s, default=_check_values_time[0])\n        d2 = dateutil.parser.parse(s, default=_check_values_time[1])\n    except OverflowError as e:\n        raise ValueError(str(e))\n"),
    ]),
    ("samples_listed", "generate() materialises the samples first", [
        (J + "generator.py", "        fields_sets = [self._convert(data) for data in data_variants]", "        fields_sets = [self._convert(data) for data in list(data_variants)]"),
    ]),
    ("generators_helper_renamed", "the two renderer helpers are renamed", [
        (J + "models/base.py", "    generators = _create_generators(structure, class_generator, class_generator_kwargs)\n    _fix_class_name_duplicates(generators)\n    _reserve_child_class_names(generators)\n    return _render_generators(generators)",
         "    generators = _build_generators(structure, class_generator, class_generator_kwargs)\n    _fix_class_name_duplicates(generators)\n    _reserve_child_class_names(generators)\n    return _render_all(generators)"),
        (J + "models/base.py", "def _create_generators(structure", "def _build_generators(structure"),
        (J + "models/base.py", "            _create_generators(data[\"nested\"], class_generator, class_generator_kwargs)", "            _build_generators(data[\"nested\"], class_generator, class_generator_kwargs)"),
        (J + "models/base.py", "def _render_generators(generators", "def _render_all(generators"),
        (J + "models/base.py", "        nested_imports, nested_classes = _render_generators(nested_generators)", "        nested_imports, nested_classes = _render_all(nested_generators)"),
    ]),
]
