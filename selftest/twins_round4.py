"""Silent twins for the rules added against the fourth batch of seeded changes; see make_twins.py."""
J = "json_to_models/"

ROUND4 = [
    ("samples_generator_consumed", "the samples of a file are passed to extend() as a generator expression", [
        (J + "cli.py", "                iterator = iter_json_file(parser(real_path), lookup)\n                models_dict[model_name].extend(iterator)\n",
         "                models_dict[model_name].extend(item for item in iter_json_file(parser(real_path), lookup))\n"),
    ]),
    ("model_tuple_length_checked_first", "the length of a --model tuple is checked before it is star-unpacked", [
        (J + "cli.py",
         "            if len(model_tuple) == 2:\n                model_name, path_raw = model_tuple\n                lookup = '-'\n"
         "            elif len(model_tuple) == 3:\n                model_name, lookup, path_raw = model_tuple\n            else:\n"
         "                raise RuntimeError('`--model` argument should contain exactly 2 or 3 strings')\n",
         "            if len(model_tuple) not in (2, 3):\n"
         "                raise RuntimeError('`--model` argument should contain exactly 2 or 3 strings')\n"
         "            model_name, *lookups, path_raw = model_tuple\n            lookup = lookups[0] if lookups else '-'\n"),
    ]),
    ("context_exit_returns_false", "the reference context's __exit__ returns False explicitly", [
        (J + "dynamic_typing/models_meta.py", "            self.data.context = self._old\n", "            self.data.context = self._old\n            return False\n"),
    ]),
    ("file_memo_keyed_by_lookup", "parsed samples are memoised per (file, lookup)", [
        (J + "cli.py", "        models = list(models) + list(models_lists)\n",
         "        models = list(models) + list(models_lists)\n        loaded = {}\n"),
        (J + "cli.py", "                iterator = iter_json_file(parser(real_path), lookup)\n                models_dict[model_name].extend(iterator)\n",
         "                memo_key = (real_path, lookup)\n                if memo_key not in loaded:\n"
         "                    loaded[memo_key] = list(iter_json_file(parser(real_path), lookup))\n"
         "                models_dict[model_name].extend(loaded[memo_key])\n"),
    ]),
    ("child_names_reserved_by_setdefault", "child class names are put into the label table directly", [
        (J + "models/base.py", "            gen.reserve_field_name(model.name)\n", "            gen._field_labels.setdefault(model.name, None)\n"),
    ]),
    ("labels_in_sorted_list", "the keys are sorted into a list before their labels are requested", [
        (J + "models/base.py", "        for key in sorted(gen.model.type):\n            gen.convert_field_name(key)\n",
         "        for key in sorted(gen.model.type.keys()):\n            gen.convert_field_name(key)\n"),
    ]),
    ("filter_type_via_get", "the pydantic filter reads the field type with dict.get", [
        (J + "models/pydantic.py", "            field_type = self.model.type[field]\n", "            field_type = self.model.type.get(field)\n"),
    ]),
    ("sqlmodel_reserve_setdefault", "sqlmodel reserves id / pk with setdefault", [
        (J + "models/sqlmodel.py", "                self._field_labels[name] = name\n", "                self._field_labels.setdefault(name, name)\n"),
    ]),
    ("optional_branch_local_result", "the Optional branch of optimize_type binds the rewritten node before returning it", [
        (J + "generator.py", "            if isinstance(t, DOptional):\n                t = t.type\n            return meta.replace(t)\n",
         "            if isinstance(t, DOptional):\n                t = t.type\n            result = meta.replace(t)\n            return result\n"),
    ]),
]
