#!/venv/bin/python
"""Regenerates MANIFEST.json from sa/props.py (developer tool; the manifest itself is committed)."""
import json, os, sys
HERE = os.path.dirname(os.path.abspath(__file__))
sys.path.insert(0, HERE)
from sa.props import PROPS
from sa.manifest_text import LEVEL, NOT_APPLICABLE

def _rules_note(pid):
    """Rule ids actually run for the property, read from its last evidence file (kept in sync with sa/props.py)."""
    p = os.path.join(HERE, "evidence", pid + ".json")
    try:
        ev = json.load(open(p))
        rules = sorted(ev["coverage"]["rules"])
        return " Rules run by this check (from its evidence): " + ", ".join(rules) + "."
    except Exception:
        return ""


props = [json.loads(l) for l in open(os.path.join(HERE, "properties.jsonl"))]
checks = []
na = []
for p in props:
    pid = p["id"]
    if pid in PROPS and pid in LEVEL:
        lv = LEVEL[pid]
        checks.append({
            "property_id": pid,
            "quick_cmd": f"/venv/bin/python check.py {pid} --tier quick",
            "thorough_cmd": f"/venv/bin/python check.py {pid} --tier thorough",
            "evidence_file": f"/verif/evidence/{pid}.json",
            "replay_cmd_template": "/venv/bin/python check.py --explain {path}",
            "engine": "sa",
            "level_claimed": {"category": "other", "text": lv["text"], "design_ref": lv["design_ref"]},
            "level_note": lv["note"] + _rules_note(pid),
            "technique": lv["technique"],
        })
    else:
        na.append({"property_id": pid, "reason": NOT_APPLICABLE.get(pid, "no static rule armed yet for this property (see DESIGN.md section 9 policy)")})
man = {
    "version": 1,
    "setup_cmd": "/venv/bin/python -m compileall -q sa check.py",
    "hooks": {"guard": "J2M_VERIF", "enable": "no hooks: the checks parse /repo's working tree with ast and never run or import it",
              "baseline_off_cmd": "cd /repo && /venv/bin/python -m pytest -ra -q -p no:cacheprovider --timeout=900 --continue-on-collection-errors",
              "source_commits": [], "add_only": True},
    "engines": [{"name": "sa", "path": "/verif/sa", "serves_properties": [c["property_id"] for c in checks],
                 "kind_free_text": "repository-specific static analyser over Python ast: program model with CHA call graph, statement CFG with exceptional edges and dominators, effect summaries, constant folder with Jinja/regex fragment parsers, path-sensitive symbolic evaluation of single functions, an abstract evaluator of the repository's own source over kind-level values (NF-4, PERM-1), a normal-form pass for spellings (sa/canon.py) and a confidence gate that withholds the verdicts of shape-dependent rules on restructured code (sa/shapegate.py, baseline_shapes.json)"}],
    "checks": checks,
    "not_applicable": na,
    "notes": "Technique family: static analysis only. Each check decides named structural clauses (necessary conditions) of its property for all inputs and states what it does not decide; see DESIGN.md. Exit 2 = ANALYSIS-ERROR (fail closed), never a VIOLATION line: an anchor vanished, the evaluator met a construct it does not know, or a rule that recognises how the repository implements a clause found something on code that was restructured since the revision the rules were validated on (verdict withheld; DESIGN.md 10.7).",
}
json.dump(man, open(os.path.join(HERE, "MANIFEST.json"), "w"), indent=1)
print(len(checks), "checks;", len(na), "not applicable")
