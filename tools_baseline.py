#!/venv/bin/python
"""Developer tool: record the structural fingerprints of every function of /repo (the revision the rules are validated on) in
baseline_shapes.json - see sa/shapegate.py.  Run after every repair of /repo, together with the battery."""
import json, os, subprocess, sys
HERE = os.path.dirname(os.path.abspath(__file__))
sys.path.insert(0, HERE)
from sa.model import Program  # noqa: E402
from sa.shapegate import BASELINE, fingerprint  # noqa: E402

if __name__ == "__main__":
    root = sys.argv[1] if len(sys.argv) > 1 else "/repo"
    prog = Program(root)
    fp = fingerprint(prog)
    # sites where the normal-form pass (sa/canon.py) rewrites the validated revision itself
    fp["canon"] = {m.relpath: m.canon_changes for m in prog.pkg_modules() if m.canon_changes}
    fp["revision"] = subprocess.check_output(["git", "-C", root, "rev-parse", "--short", "HEAD"], text=True).strip()
    with open(BASELINE, "w") as fh:
        json.dump(fp, fh, indent=0, sort_keys=True)
    print("normal-form pass rewrites on this revision:", fp["canon"])
    print(f"{len(fp['functions'])} functions of {root} at {fp['revision']} recorded in {BASELINE}")
