#!/venv/bin/python
"""Developer tool: confirm sub-agent mutations in a scratch worktree and store them under /verif/seeded/<id>/.

    tools_confirm.py C17 [C04 ...]
For each /tmp/mut/<P>/MUT/<k>: apply patch in a fresh worktree, run the whole suite (must pass), run demo.py (must
fail), revert, run demo.py (must pass). Confirmed ones are copied to /verif/seeded/<P>-<k>/.
"""
import json, os, shutil, subprocess, sys, tempfile, time

VERIF = os.path.dirname(os.path.abspath(__file__))
PY = "/venv/bin/python"


def sh(cmd, cwd, env=None, timeout=1500):
    e = dict(os.environ)
    e.update(env or {})
    r = subprocess.run(cmd, cwd=cwd, env=e, capture_output=True, text=True, timeout=timeout)
    return r.returncode, (r.stdout + r.stderr)


def confirm(pid):
    base = os.path.join(os.environ.get("MUT_BASE", "/tmp/mut"), pid, "MUT")
    if not os.path.isdir(base):
        print(pid, "no MUT dir"); return
    wt = tempfile.mkdtemp(prefix=f"confirm_{pid}_", dir="/tmp")
    os.rmdir(wt)
    subprocess.check_call(["git", "-C", "/repo", "worktree", "add", "-q", "--detach", wt, os.environ.get("MUT_REV", "HEAD")])
    try:
        env = {"PYTHONPATH": wt, "PYTHONDONTWRITEBYTECODE": "1"}
        for k in sorted(os.listdir(base)):
            d = os.path.join(base, k)
            if not os.path.isfile(os.path.join(d, "patch.diff")):
                continue
            sid = f"{pid}-{os.environ.get('MUT_TAG', '')}{k}"
            if os.path.isdir(os.path.join(VERIF, "seeded", sid)):
                print(sid, "already stored"); continue
            sh(["git", "checkout", "-q", "--", "."], wt)
            rc, out = sh(["git", "apply", os.path.join(d, "patch.diff")], wt)
            if rc != 0:
                print(sid, "PATCH FAILED", out[:200]); continue
            rc, out = sh([PY, "-m", "compileall", "-q", "json_to_models"], wt)
            compiles = rc == 0
            rc, out = sh([PY, "-m", "pytest", "-q", "-p", "no:cacheprovider", "-n", "8", "--timeout=900", "test"], wt, env)
            tail = out.strip().splitlines()[-1] if out.strip() else ""
            suite_ok = rc == 0 and "428 passed" in tail
            rc_mut, out_mut = sh([PY, os.path.join(d, "demo.py")], wt, env, timeout=600)
            sh(["git", "checkout", "-q", "--", "."], wt)
            rc_clean, out_clean = sh([PY, os.path.join(d, "demo.py")], wt, env, timeout=600)
            ok = compiles and suite_ok and rc_mut != 0 and rc_clean == 0
            print(sid, "CONFIRMED" if ok else "REJECTED", f"compiles={compiles} suite='{tail[-60:]}' demo_mut_rc={rc_mut} demo_clean_rc={rc_clean}")
            if ok:
                dst = os.path.join(VERIF, "seeded", sid)
                os.makedirs(dst, exist_ok=True)
                shutil.copy(os.path.join(d, "patch.diff"), dst)
                shutil.copy(os.path.join(d, "demo.py"), dst)
                meta = {}
                try:
                    meta = json.load(open(os.path.join(d, "meta.json")))
                except Exception:
                    pass
                meta["confirmed"] = {
                    "ran": [f"git apply patch.diff (scratch worktree of /repo HEAD {subprocess.check_output(['git','-C','/repo','rev-parse','--short','HEAD'], text=True).strip()})",
                            "python -m compileall json_to_models -> ok",
                            f"pytest -n 8 test -> {tail}",
                            f"demo.py with patch -> exit {rc_mut}: {out_mut.strip().splitlines()[-1][:200] if out_mut.strip() else ''}",
                            f"demo.py without patch -> exit {rc_clean}"],
                    "date": time.strftime("%Y-%m-%d"),
                }
                json.dump(meta, open(os.path.join(dst, "meta.json"), "w"), indent=1)
    finally:
        subprocess.call(["git", "-C", "/repo", "worktree", "remove", "--force", wt])


if __name__ == "__main__":
    for p in sys.argv[1:]:
        confirm(p)
