#!/venv/bin/python
"""Developer tool: run the registered checks against a scratch copy of /repo with one patch applied.

    tools_mut.py <patch.diff> [Cxx ...]     prints, per property, the exit code and the violated rules
"""
import json, os, shutil, subprocess, sys, tempfile

HERE = os.path.dirname(os.path.abspath(__file__))


def run(patch, props=None, repo="/repo"):
    tmp = tempfile.mkdtemp(prefix="j2m_mut_")
    try:
        root = os.path.join(tmp, "repo")
        os.makedirs(root)
        for item in ("json_to_models", "pyproject.toml", "testing_tools", "test"):
            src = os.path.join(repo, item)
            if os.path.isdir(src):
                shutil.copytree(src, os.path.join(root, item), ignore=shutil.ignore_patterns("__pycache__"))
            elif os.path.isfile(src):
                shutil.copy(src, os.path.join(root, item))
        if patch:
            r = subprocess.run(["patch", "-p1", "-s", "-i", os.path.abspath(patch)], cwd=root, capture_output=True, text=True)
            if r.returncode != 0:
                return {"error": "patch failed: " + r.stdout + r.stderr}
        env = dict(os.environ, J2M_EVIDENCE_DIR=os.path.join(tmp, "ev"),
                   J2M_RULE_CACHE=os.path.join(tempfile.gettempdir(), f"j2m-rulecache-{os.getuid()}"))
        sys.path.insert(0, HERE)
        from sa.props import PROPS
        out = {}
        for pid in (props or sorted(PROPS)):
            r = subprocess.run(["/venv/bin/python", os.path.join(HERE, "check.py"), pid, "--root", root],
                               capture_output=True, text=True, env=env)
            rules = []
            for ln in r.stdout.splitlines():
                ln = ln.strip()
                if ln and ln.split()[0].rstrip(":").replace("/", "").replace("-", "").isalnum() and " at " in ln and " in " in ln:
                    rules.append(ln[:150])
                if ln.startswith("ANALYSIS-ERROR"):
                    rules.append(ln[:200])
            out[pid] = (r.returncode, rules)
        return out
    finally:
        shutil.rmtree(tmp, ignore_errors=True)


if __name__ == "__main__":
    res = run(sys.argv[1], sys.argv[2:] or None)
    if "error" in res:
        print(res["error"]); sys.exit(3)
    for pid, (rc, rules) in res.items():
        if rc != 0:
            print(pid, "rc=", rc)
            for r in rules:
                print("    ", r)
    print("fired:", [p for p, (rc, _) in res.items() if rc == 1], " errors:", [p for p, (rc, _) in res.items() if rc == 2])
