"""
TRIAGE ONLY -- not a check, not referenced by MANIFEST.json, never run by any registered command.

Reproduces, against the real package, each report that the static rules of DESIGN.md make on the
pinned tree (DESIGN.md section 5), so that a report can be classified as a genuine defect (with a
failing input) before it is fixed or recorded in known_findings.json.

    /venv/bin/python /verif/triage/repro.py            # run every case, print one line each
    /venv/bin/python /verif/triage/repro.py F-OPT      # one case, verbose
    PYTHONHASHSEED=3 /venv/bin/python /verif/triage/repro.py F-ORD-1   # hash-seed cases print a digest

A case prints DEFECT when the defective behaviour is observed and CLEAN when it is not (e.g. after
a fix).  Hash-seed cases (F-ORD-*) print a digest of the output: compare across PYTHONHASHSEED values.
"""
import hashlib
import os
import re
import subprocess
import sys
import tempfile
import threading
import typing

from json_to_models.dynamic_typing import BooleanString, FloatString, IntString, registry
from json_to_models.generator import MetadataGenerator
from json_to_models.models.attr import AttrsModelCodeGenerator
from json_to_models.models.base import generate_code
from json_to_models.models.dataclasses import DataclassModelCodeGenerator
from json_to_models.models.pydantic import PydanticModelCodeGenerator
from json_to_models.models.structure import compose_models, compose_models_flat
from json_to_models.registry import ModelFieldsPercentMatch, ModelRegistry


def pipeline(samples, gen_cls=PydanticModelCodeGenerator, flat=True, kwargs=None, cmp=(), name="Root"):
    gen = MetadataGenerator()
    reg = ModelRegistry(*cmp)
    reg.process_meta_data(gen.generate(*samples), name)
    reg.merge_models(gen)
    reg.generate_names()
    st = (compose_models_flat if flat else compose_models)(reg.models_map)
    return generate_code(st, gen_cls, class_generator_kwargs=kwargs or {})


def load(code):
    ns = {}
    exec(code, ns)
    return ns


REPO = os.environ.get("J2M_TRIAGE_REPO", "/repo")   # point at a scratch copy to triage a candidate fix


def cli(*args):
    env = dict(os.environ, PYTHONPATH=REPO)
    return subprocess.run([sys.executable, "-m", "json_to_models", *args],
                          capture_output=True, text=True, cwd=REPO, env=env)


def with_json(data_text, fn):
    with tempfile.TemporaryDirectory() as d:
        p = os.path.join(d, "s.json")
        with open(p, "w") as f:
            f.write(data_text)
        return fn(p)


def digest(s):
    return hashlib.md5(s.encode()).hexdigest()[:12]


CASES = {}


def case(key):
    def deco(fn):
        CASES[key] = fn
        return fn
    return deco


@case("F-TLS")   # TLS-1 / C15
def f_tls():
    out = {}

    def work():
        try:
            pipeline([{"a": {"b": 1}}])
            out["r"] = "CLEAN"
        except AttributeError as e:
            out["r"] = f"DEFECT {e!r}"
    t = threading.Thread(target=work)
    t.start()
    t.join()
    return out["r"]


@case("F-ORD-1")  # ORD-1 / C06: frozenset group unpacked into _merge
def f_ord1():
    s = [{"x": {"a": 1, "b": 2, "c": 3, "d": 4},
          "y": {"d": 1, "c": 2, "b": 3, "a": 4, "e": 5},
          "z": {"e": 1, "a": 2, "d": 3, "c": 4, "b": 5, "f": 1},
          "w": {"f": 1, "b": 2, "a": 3, "c": 4, "d": 5, "g": 1}}]
    return "DIGEST " + digest(pipeline(s))


def _rec_nested():
    leaf = {"id": 1, "name": "x", "child": None,
            "a": {"k1": 1, "item": {"sku": "s", "qty": 1}},
            "b": {"k2": "v", "k3": 1, "item": {"sku": "t", "qty": 2}}}
    root = dict(leaf)
    root["child"] = leaf
    return root


@case("F-ORD-2")  # ORD-1 / C06: next(iter(parents)) in compose_models
def f_ord2():
    return "DIGEST " + digest(pipeline([_rec_nested()], flat=False))


@case("F-ORD-3")  # ORD-1 / C06: next(iter(parents)) in compose_models_flat
def f_ord3():
    d = {"id": 1, "a": {"k1": 1, "k11": 2, "item": {"sku": "s", "qty": 1}},
         "child": {"id": 2, "b": {"k2": "v", "k3": 1, "k4": 1, "k5": 2, "item": {"sku": "t", "qty": 2}},
                   "child": None}}
    code = pipeline([d], flat=True, cmp=(ModelFieldsPercentMatch(.5),))
    return "DIGEST " + " ".join(re.findall(r"^class (\w+)", code, re.M))


@case("F-OPT")  # OPT-1, OPT-5 / C01, C07
def f_opt():
    res = []
    for s in ({"p": {"x": 1, "y": 2}, "q": [{"x": 1, "y": 2}, {"y": 3}]},
              {"q": [{"x": 1, "y": 2}, {"y": 3}], "p": {"x": 1, "y": 2}}):
        code = pipeline([s])
        res.append("x: Optional[int]" in code)
    return "CLEAN" if all(res) else f"DEFECT x optional per key order: {res}"


@case("F-NF")  # NF-1 / C08
def f_nf():
    try:
        pipeline([{"a": []}, {"a": [None]}])
        return "CLEAN"
    except IndexError as e:
        return f"DEFECT {e!r}"


@case("F-LIT")  # INJ-3 / C10
def f_lit():
    ns = load(pipeline([{"a": "\U0001F600"}, {"a": "x"}]))
    args = typing.get_args(typing.get_type_hints(ns["Root"])["a"])
    return "CLEAN" if "\U0001F600" in args else f"DEFECT Literal members {args!r}"


@case("F-ALIAS")  # INJ-2 / C11
def f_alias():
    code = pipeline([{'we"ird': 1, 'back\\slash': 2}])
    try:
        ns = load(code)
    except SyntaxError as e:
        return f"DEFECT {e!r}"
    aliases = sorted(f.alias for f in ns["Root"].__fields__.values())
    return "CLEAN" if aliases == sorted(['we"ird', 'back\\slash']) else f"DEFECT aliases {aliases}"


@case("F-IMP")  # IMP-1 / C03, C18
def f_imp():
    code = pipeline([{"a": "1"}, {}], gen_cls=AttrsModelCodeGenerator)
    try:
        load(code)
        return "CLEAN"
    except ImportError as e:
        return f"DEFECT {e!r}"


@case("F-SHADOW")  # SHADOW-1 / C03, C11
def f_shadow():
    bad = []
    try:
        load(pipeline([{"field": 1, "z": [1]}, {}], gen_cls=DataclassModelCodeGenerator))
    except TypeError as e:
        bad.append(f"dataclasses/field: {e}")
    try:
        load(pipeline([{"attr": 1, "b": 2}, {}], gen_cls=AttrsModelCodeGenerator))
    except AttributeError as e:
        bad.append(f"attrs/attr: {e}")
    code = pipeline([{"list": {"a": 1}, "xs": [1]}])
    if re.search(r"^class List\b", code, re.M):
        bad.append("pydantic: class List rebinds typing.List")
    return "CLEAN" if not bad else "DEFECT " + "; ".join(bad)


@case("F-RX")  # RX-1 / C13
def f_rx():
    r = with_json('[{"m": {"ax": 1, "ay": 2}}]', lambda p: cli("-m", "Foo", p, "--dkr", "a|b"))
    return "DEFECT m typed as Dict although keys do not fully match a|b" if "Dict[str, int]" in r.stdout else "CLEAN"


@case("F-NULL")  # NULL-1 / C18
def f_null():
    bad = []
    for cls in (AttrsModelCodeGenerator, DataclassModelCodeGenerator):
        ns = load(pipeline([{"a": ["1", "2"]}, {"a": None}], gen_cls=cls, kwargs={"post_init_converters": True}))
        try:
            ns["Root"](a=None)
        except TypeError as e:
            bad.append(f"{cls.__name__}: {e}")
    return "CLEAN" if not bad else "DEFECT " + "; ".join(bad)


@case("F-EXH")  # TOK-2 / C18
def f_exh():
    bad = []
    for sample in ([{"a": []}], [{"a": {}}], [{"a": [[]]}]):
        try:
            pipeline(sample, gen_cls=AttrsModelCodeGenerator, kwargs={"post_init_converters": True})
        except TypeError as e:
            bad.append(f"{sample}: {e}")
    return "CLEAN" if not bad else "DEFECT " + "; ".join(bad)


@case("F-CONV")  # OPTFLOW-4 / C16
def f_conv():
    r = with_json('[{"a": "1"}]', lambda p: cli("-m", "Foo", p, "-f", "dataclasses", "--strings-converters"))
    return "CLEAN" if "convert_strings" in r.stdout else "DEFECT --strings-converters ignored for dataclasses"


@case("F-CACHE")  # CACHE-2 / C11, C04
def f_cache():
    code = pipeline([{"inner": {"Inner": 1, "x": 2}}])
    return "DEFECT field emitted as 'Inner: int'" if re.search(r"^\s+Inner: int$", code, re.M) else "CLEAN"


@case("F-DIS")  # DET-5 / C09
def f_dis():
    r = with_json('[{"d": "2020-01-02"}]',
                  lambda p: cli("-m", "Foo", p, "--datetime", "--disable-str-serializable-types", "date"))
    return "DEFECT disabled type emitted: IsoDateString" if "IsoDateString" in r.stdout else "CLEAN"


@case("F-HDR")  # INJ-4 / C19
def f_hdr():
    r = with_json('[{"a": 1}]', lambda p: cli("-m", "Foo", p, "--preamble", 'x = """hi"""'))
    try:
        compile(r.stdout, "<cli>", "exec")
        return "CLEAN"
    except SyntaxError as e:
        return f"DEFECT {e!r}"


@case("OUT-OF-REACH-resolve")  # observed, no static rule claims it (DESIGN.md, C09)
def oor_resolve():
    got = registry.resolve(IntString, FloatString, BooleanString)
    return f"OBSERVED resolve(Int, Float, Bool) = {sorted(t.__name__ for t in got)}"


if __name__ == "__main__":
    wanted = sys.argv[1:] or list(CASES)
    for k in wanted:
        try:
            print(f"{k:22s} {CASES[k]()}")
        except Exception as e:  # triage script: show, do not hide
            print(f"{k:22s} ERROR {e!r}")
