import sys, threading, os, tempfile, traceback
from json_to_models.cli import FileLoaders
from pathlib import Path
sys.setswitchinterval(1e-6)
tmp = tempfile.mkdtemp()
paths = []
for k in range(4):
    p = Path(tmp) / f"d{k}.yaml"
    p.write_text("\n".join(f"key{k}_{i}: {{a: {i}, b: 'v{k}', c: [1, 2, 3]}}" for i in range(300)) + "\n")
    paths.append(p)
alone = [FileLoaders.yaml(p) for p in paths]
bad = []
def w(k):
    try:
        for _ in range(5):
            if FileLoaders.yaml(paths[k]) != alone[k]:
                bad.append((k, "differs"))
    except BaseException as e:
        bad.append((k, repr(e)[:200]))
ts = [threading.Thread(target=w, args=(k,)) for k in range(4)]
[t.start() for t in ts]; [t.join() for t in ts]
print("yaml problems:", bad[:5], len(bad))
