import json, os, tempfile
from json_to_models.cli import Cli
tmp = tempfile.mkdtemp()
src = os.path.join(tmp, "d.json")
json.dump([{"day": "2018-01-02", "n": "1"}], open(src, "w"))
body = lambda t: t.split('"""\n', 2)[2]
a1 = body((lambda c: (c.parse_args(["-m", "A", src]), c.run())[1])(Cli()))
b = body((lambda c: (c.parse_args(["-m", "A", src, "--datetime"]), c.run())[1])(Cli()))
a2 = body((lambda c: (c.parse_args(["-m", "A", src]), c.run())[1])(Cli()))
print("same before/after another pipeline used --datetime:", a1 == a2)
print(a1); print(a2)
